//! C03 - the version order is a total preorder and the four operators are
//! mutually consistent (model-free: only relations between real verdicts).
//!
//! The verdict matrix R_op(A, B) = Pattern("p" op B).matches("p-" A) is
//! computed with real calls for every ordered pair of a finite carrier and
//! every operator; the laws are then checked over *all* pairs and triples of
//! the carrier on the matrix (bitset rows).

use mc_core::model::dewey::{Op, OPS};
use mc_core::par::par_items;
use mc_core::seqs;
use mc_core::{guard, Run, Violation};
use pkgsrc::Pattern;
use serde_json::{json, Value};
use std::collections::BTreeSet;
use std::sync::atomic::{AtomicU64, Ordering as AO};

const TOKENS: [&str; 30] = [
    "0", "1", "2", "10", "09", ".", "_", "alpha", "beta", "rc", "pre", "pl", "nb", "a", "b", "z",
    "n", "p", "r", "ALPHA", "Beta", "RC", "Pre", "PL", "NB", "A", "Z", "+", "é", "~",
];
const MODIFIER_TOKENS: [usize; 12] = [7, 8, 9, 10, 11, 12, 19, 20, 21, 22, 23, 24];

/// Strings outside any reference model's domain.
const WILD: [&str; 85] = [
    "é", "ééé", "日本", "1é2", "é1", "1é", "ß", "Ⅷ", "１", "١٢٣", "ǅ", "İ", "ı", "K",
    "9999999999999999999", "99999999999999999999", "9999999999999999999999999999999999999999",
    "9223372036854775807", "9223372036854775808", "9223372036854775806",
    "1.99999999999999999999", "1.9223372036854775807", "99999999999999999999.1",
    "nb99999999999999999999", "1nb99999999999999999999", "1nb9223372036854775807",
    "1nb9223372036854775808", "00000000000000000000001", "0000000000000000000000",
    "+++", "~", "~~1", "!@#$%^&()", " ", "\t", "1 2", " 1", "1 ", "1,2", "a.b", "1..2", "...", "___",
    "1__2", "alphabeta", "prerc", "plpl", "nbnb", "nb1nb2", "1nb", "NB5", "0x10", "1e10", "1.0e3x",
    "*", "?", "[1]", "1*", "\\", "\"", "'", "1/2", ":", ";", "|", "1|2", "\u{0}", "1\u{0}2", "\u{7f}",
    "\u{85}", "\u{a0}1", "\u{feff}1",
    // integer-width thresholds and versions with many components
    "2147483647", "2147483648", "4294967295", "4294967296", "1.2147483648", "1nb4294967296", "9007199254740993",
    "1.0.0.0.0.0.0.0.0.0.0.0", "1.0.0.0.0.0.0.0.0.0.0.0.1", "1.0.0.0.0.0.0.0.0nb1", "1.1.1.1.1.1.1.1.1.1.1.1.1.1.1.1.1.1.1.1",
    "1.1.1.1.1.1.1.1.1.1.1.1.1.1.1.1.1.1.1.2", "1.0.0.0.0.0.0.0.0rc1",
];

fn token_versions(max: usize, only_interesting: bool) -> Vec<String> {
    let mut out = BTreeSet::new();
    let mut pre = vec![];
    let mut visit = |s: &[usize]| {
        if only_interesting && s.len() == 3 {
            // 3-token versions that contain a modifier or 'nb'
            if !s.iter().any(|i| MODIFIER_TOKENS.contains(i)) {
                return;
            }
        }
        out.insert(s.iter().map(|i| TOKENS[*i]).collect::<String>());
    };
    seqs::dfs(TOKENS.len(), max, &mut pre, &|_| false, &mut visit);
    out.into_iter().collect()
}

fn op_idx(op: Op) -> usize {
    OPS.iter().position(|o| *o == op).unwrap()
}

struct Matrix {
    n: usize,
    words: usize,
    // [op][a * words + w], bit b set <=> R_op(a, b)
    bits: Vec<Vec<AtomicU64>>,
}

impl Matrix {
    fn new(n: usize) -> Matrix {
        let words = (n + 63) / 64;
        let bits = (0..4)
            .map(|_| (0..n * words).map(|_| AtomicU64::new(0)).collect())
            .collect();
        Matrix { n, words, bits }
    }
    fn set(&self, op: usize, a: usize, b: usize) {
        self.bits[op][a * self.words + b / 64].fetch_or(1 << (b % 64), AO::Relaxed);
    }
    fn get(&self, op: usize, a: usize, b: usize) -> bool {
        self.bits[op][a * self.words + b / 64].load(AO::Relaxed) >> (b % 64) & 1 == 1
    }
    fn snapshot(&self, op: usize) -> Vec<u64> {
        self.bits[op].iter().map(|w| w.load(AO::Relaxed)).collect()
    }
}

fn verdict(a: &str, op: Op, b: &str) -> Result<bool, String> {
    let pat = format!("p{}{}", op.text(), b);
    let name = format!("p-{}", a);
    match guard(|| Pattern::new(&pat).map(|p| p.matches(&name))) {
        Ok(Ok(v)) => Ok(v),
        Ok(Err(e)) => Err(format!("compile error: {}", e)),
        Err(m) => Err(format!("panic: {}", m)),
    }
}

/// The pairwise laws for (A, B), evaluated from fresh real calls (used for
/// replay and for reporting).
fn pair_laws(a: &str, b: &str) -> Option<(String, Value)> {
    let mut r = [[false; 2]; 4]; // [op][0 = (a,b), 1 = (b,a)]
    for op in OPS {
        for (k, (x, y)) in [(a, b), (b, a)].iter().enumerate() {
            match verdict(x, op, y) {
                Ok(v) => r[op_idx(op)][k] = v,
                Err(m) => return Some(("verdict".into(), json!(m))),
            }
        }
    }
    let (gt, ge, lt, le) = (r[0][0], r[1][0], r[2][0], r[3][0]);
    let one = [lt, gt, le && ge].iter().filter(|x| **x).count();
    if one != 1 {
        return Some(("trichotomy".into(), json!({"<": lt, ">": gt, "<=": le, ">=": ge})));
    }
    if le == gt || ge == lt {
        return Some(("duality".into(), json!({"<": lt, ">": gt, "<=": le, ">=": ge})));
    }
    // placement independence: A op B asked with B in the pattern equals
    // B mirror(op) A asked with A in the pattern
    for op in OPS {
        if r[op_idx(op)][0] != r[op_idx(op.mirror())][1] {
            return Some((
                "placement".into(),
                json!({"op": op.text(), "A op B (B in pattern)": r[op_idx(op)][0],
                       "B mirror(op) A (A in pattern)": r[op_idx(op.mirror())][1]}),
            ));
        }
    }
    None
}

fn two_bound(a: &str, lo: &str, lop: Op, hi: &str, hop: Op) -> Option<Value> {
    let pat = format!("p{}{}{}{}", lop.text(), lo, hop.text(), hi);
    let name = format!("p-{}", a);
    let both = match guard(|| Pattern::new(&pat).map(|p| p.matches(&name))) {
        Ok(Ok(v)) => v,
        Ok(Err(e)) => return Some(json!(format!("compile error: {}", e))),
        Err(m) => return Some(json!(format!("panic: {}", m))),
    };
    let h1 = verdict(a, lop, lo);
    let h2 = verdict(a, hop, hi);
    match (h1, h2) {
        (Ok(x), Ok(y)) => {
            if both != (x && y) {
                Some(json!({"two-bound": both, "lower half": x, "upper half": y}))
            } else {
                None
            }
        }
        (e1, e2) => Some(json!({"halves": format!("{:?} {:?}", e1, e2)})),
    }
}

fn replay(doc: &Value) -> Option<Violation> {
    let c = &doc["case"];
    let s = |k: &str| c[k].as_str().unwrap_or("").to_string();
    match doc["kind"].as_str() {
        Some("pair") => pair_laws(&s("a"), &s("b")).map(|(law, obs)| {
            Violation::new("pair", c.clone(), json!(format!("law {} holds", law)), obs, "")
        }),
        Some("reflexive") => {
            let a = s("a");
            let le = verdict(&a, Op::Le, &a);
            let ge = verdict(&a, Op::Ge, &a);
            if le == Ok(true) && ge == Ok(true) {
                None
            } else {
                Some(Violation::new(
                    "reflexive",
                    c.clone(),
                    json!("A<=A and A>=A"),
                    json!(format!("{:?} {:?}", le, ge)),
                    "",
                ))
            }
        }
        Some("transitive") => {
            let (a, b, cc) = (s("a"), s("b"), s("c"));
            let ab = verdict(&a, Op::Le, &b);
            let bc = verdict(&b, Op::Le, &cc);
            let ac = verdict(&a, Op::Le, &cc);
            if ab == Ok(true) && bc == Ok(true) && ac != Ok(true) {
                Some(Violation::new(
                    "transitive",
                    c.clone(),
                    json!("A<=B and B<=C imply A<=C"),
                    json!(format!("A<=B {:?}, B<=C {:?}, A<=C {:?}", ab, bc, ac)),
                    "",
                ))
            } else {
                None
            }
        }
        Some("two-bound") => {
            let lop = if s("lop") == ">" { Op::Gt } else { Op::Ge };
            let hop = if s("hop") == "<" { Op::Lt } else { Op::Le };
            two_bound(&s("a"), &s("lo"), lop, &s("hi"), hop).map(|obs| {
                Violation::new("two-bound", c.clone(), json!("matches iff both halves match"), obs, "")
            })
        }
        _ => None,
    }
}

fn main() {
    let run = Run::from_args("C03");
    if let Some(doc) = run.replay_case() {
        run.finish_replay(replay(doc), replay(doc));
    }
    run.rule(
        "carrier V = every version of <=2 tokens of the C01 alphabet, (thorough: plus every \
         3-token version containing a modifier or nb), plus 85 strings outside any model's domain or beyond the token bound (integer-width thresholds, 12-20 components) \
         (non-ASCII, 19/20/40-digit runs, punctuation, blanks, NUL). R_op(A,B) computed by one real \
         Pattern call per ordered pair and operator. Laws checked on the matrix over every pair and \
         every triple of V: trichotomy, duality (<= is not >, >= is not <), reflexivity, placement \
         independence (A op B with B in the pattern == B mirror(op) A with A in the pattern), \
         transitivity of <=; two-bound patterns match iff both halves match. Non-trivial = ordered \
         pairs of distinct strings that tie, or that involve an out-of-model string.",
    );
    run.assume("no reference model: only relations between the implementation's own verdicts are checked");
    run.assume("carrier strings contain none of - < > { } and do not start with '=' (they must embed in a pattern and a name)");

    let mut set: BTreeSet<String> = token_versions(2, false).into_iter().collect();
    if run.thorough() {
        set.extend(token_versions(3, true));
    }
    let model_n = set.len();
    for w in WILD {
        set.insert(w.to_string());
    }
    // every special non-ASCII character alone and next to a digit
    let mut extra: Vec<String> = vec![];
    for c in mc_core::chars::SPECIALS {
        extra.push(format!("{}", c));
        extra.push(format!("1{}", c));
    }
    for e in &extra {
        set.insert(e.clone());
    }
    let v: Vec<String> = set.into_iter().collect();
    let wild: Vec<bool> = v.iter().map(|s| WILD.contains(&s.as_str()) || extra.contains(s)).collect();
    let n = v.len();
    run.bound(format!(
        "carrier of {} versions ({} token-built, {} out-of-model); {} real verdicts; laws over all {} pairs and {} triples",
        n,
        model_n,
        n - model_n,
        4 * n * n,
        n * n,
        (n as u64).pow(3)
    ));
    let names: Vec<String> = v.iter().map(|s| format!("p-{}", s)).collect();
    let m = Matrix::new(n);
    let idx: Vec<usize> = (0..n).collect();

    // 1. the matrix, by real calls
    par_items(&run, "C03 matrix", &idx, |_, b, t| {
        t.states += 1;
        for op in OPS {
            let pat = format!("p{}{}", op.text(), v[*b]);
            let p = match guard(|| Pattern::new(&pat)) {
                Ok(Ok(p)) => p,
                other => {
                    t.violation(Violation::new(
                        "pair",
                        json!({"a": v[*b], "b": v[*b]}),
                        json!("pattern compiles"),
                        json!(format!("{:?}", other.map(|r| r.map(|_| ()).map_err(|e| e.to_string())))),
                        "a single-operator pattern failed to compile",
                    ));
                    continue;
                }
            };
            let oi = op_idx(op);
            for a in 0..n {
                t.evals += 1;
                t.validated += 1;
                t.transitions += 1;
                match guard(|| p.matches(&names[a])) {
                    Ok(true) => m.set(oi, a, *b),
                    Ok(false) => {}
                    Err(msg) => t.violation(Violation::new(
                        "pair",
                        json!({"a": v[a], "b": v[*b]}),
                        json!("a verdict"),
                        json!(format!("panic: {}", msg)),
                        "matching panicked",
                    )),
                }
            }
        }
    });

    // 2. pairwise laws and transitivity on the matrix
    let (gt, ge, lt, le) = (op_idx(Op::Gt), op_idx(Op::Ge), op_idx(Op::Lt), op_idx(Op::Le));
    let le_rows = m.snapshot(le);
    let words = m.words;
    par_items(&run, "C03 laws", &idx, |_, a, t| {
        let a = *a;
        if !(m.get(le, a, a) && m.get(ge, a, a)) {
            t.violation(Violation::new(
                "reflexive",
                json!({"a": v[a]}),
                json!("A<=A and A>=A"),
                json!({"<=": m.get(le, a, a), ">=": m.get(ge, a, a)}),
                "reflexivity",
            ));
        }
        let row_a = &le_rows[a * words..(a + 1) * words];
        let (mut n_lt, mut n_gt, mut n_eq) = (0u64, 0u64, 0u64);
        for b in 0..m.n {
            let (l, g, e) = (m.get(lt, a, b), m.get(gt, a, b), m.get(le, a, b) && m.get(ge, a, b));
            let ok_tri = [l, g, e].iter().filter(|x| **x).count() == 1;
            let ok_dual = m.get(le, a, b) != g && m.get(ge, a, b) != l;
            let ok_place = OPS
                .iter()
                .all(|op| m.get(op_idx(*op), a, b) == m.get(op_idx(op.mirror()), b, a));
            if !(ok_tri && ok_dual && ok_place) {
                let (law, obs) = pair_laws(&v[a], &v[b])
                    .unwrap_or(("matrix".into(), json!("law fails on the matrix but not on re-evaluation")));
                t.violation(Violation::new(
                    "pair",
                    json!({"a": v[a], "b": v[b]}),
                    json!(format!("law {} holds", law)),
                    obs,
                    "pairwise law",
                ));
            }
            if l {
                n_lt += 1
            } else if g {
                n_gt += 1
            } else {
                n_eq += 1;
                if a != b {
                    t.nontrivial += 1;
                }
            }
            if (wild[a] || wild[b]) && !(e && a != b) {
                t.nontrivial += 1;
            }
            // transitivity: A<=B  =>  row_le(B) subset of row_le(A)
            if m.get(le, a, b) {
                let row_b = &le_rows[b * words..(b + 1) * words];
                for w in 0..m.words {
                    let bad = row_b[w] & !row_a[w];
                    if bad != 0 {
                        let c = w * 64 + bad.trailing_zeros() as usize;
                        t.violation(Violation::new(
                            "transitive",
                            json!({"a": v[a], "b": v[b], "c": v[c]}),
                            json!("A<=B and B<=C imply A<=C"),
                            json!("A<=B, B<=C, not A<=C"),
                            "transitivity of <=",
                        ));
                        break;
                    }
                }
            }
        }
        t.evals += m.n as u64 * m.n as u64; // triples (a, b, *) covered by the row inclusion tests
        t.outcome_n("pair/less", n_lt);
        t.outcome_n("pair/greater", n_gt);
        t.outcome_n("pair/tie", n_eq);
        t.sample(run.seed, a as u64, || json!({"A": v[a], "laws": "all B, all C"}));
    });

    // 3. two-bound patterns
    let sub: Vec<usize> = {
        // a sub-carrier spread over the whole carrier, always including some wild strings
        let want = run.pick(24, 40);
        let step = (n / want).max(1);
        let mut s: Vec<usize> = (0..n).step_by(step).take(want).collect();
        for (i, w) in wild.iter().enumerate() {
            if *w && s.len() < want + 8 && i % 9 == 0 {
                s.push(i);
            }
        }
        s.sort();
        s.dedup();
        s
    };
    run.bound(format!(
        "two-bound: every A in V x every (L, U) from a {}-element sub-carrier x 4 operator combinations",
        sub.len()
    ));
    par_items(&run, "C03 two-bound", &idx, |_, a, t| {
        for lo in &sub {
            for hi in &sub {
                for lop in [Op::Gt, Op::Ge] {
                    for hop in [Op::Lt, Op::Le] {
                        t.evals += 1;
                        t.validated += 1;
                        t.transitions += 1;
                        let pat = format!("p{}{}{}{}", lop.text(), v[*lo], hop.text(), v[*hi]);
                        let got = guard(|| Pattern::new(&pat).map(|p| p.matches(&names[*a])));
                        let want = m.get(op_idx(lop), *a, *lo) && m.get(op_idx(hop), *a, *hi);
                        let ok = matches!(&got, Ok(Ok(g)) if *g == want);
                        t.outcome(if want { "two-bound/match" } else { "two-bound/nomatch" });
                        if !ok {
                            let obs = two_bound(&v[*a], &v[*lo], lop, &v[*hi], hop)
                                .unwrap_or(json!(format!("{:?} vs matrix {}", got.map(|r| r.map_err(|e| e.to_string())), want)));
                            t.violation(Violation::new(
                                "two-bound",
                                json!({"a": v[*a], "lo": v[*lo], "lop": lop.text(), "hi": v[*hi], "hop": hop.text()}),
                                json!("matches iff both halves match"),
                                obs,
                                "conjunction of bounds",
                            ));
                        }
                    }
                }
            }
        }
    });
    // related bounds: spellings of one another (zero padding, pre-releases, revisions),
    // evaluated with direct calls for both halves
    const REL: [&str; 34] = [
        "", "0", "1", "1.0", "1.0.0", "1alpha", "1.0alpha", "1rc1", "1.0rc1", "1nb1", "1.0nb1", "1_", "2", "1.5", "1pl", "1.0pl1",
        // several revisions of one version (a range between two revisions of the same version), and of its spellings
        "1.0nb2", "1.0nb3", "1nb2", "1nb3", "1.0nb10", "2nb1", "2nb2", "1.5nb1", "1.5nb2", "0nb1", "1.0.0nb1", "1.0.0nb2", "1alphanb1", "1rc1nb2", "1rc1nb1", "1.0a", "1.0anb1", "1_nb2",
    ];
    run.bound("two-bound, related spellings: 34 x 34 (L, U) x 34 package versions x 4 operator combinations, halves by direct calls");
    let rel: Vec<usize> = (0..REL.len()).collect();
    par_items(&run, "C03 related bounds", &rel, |_, ai, t| {
        for lo in REL {
            for hi in REL {
                for lop in [Op::Gt, Op::Ge] {
                    for hop in [Op::Lt, Op::Le] {
                        t.evals += 1;
                        t.validated += 3;
                        t.transitions += 3;
                        t.nontrivial += 1;
                        match two_bound(REL[*ai], lo, lop, hi, hop) {
                            None => t.outcome("two-bound/related-consistent"),
                            Some(obs) => t.violation(Violation::new(
                                "two-bound",
                                json!({"a": REL[*ai], "lo": lo, "lop": lop.text(), "hi": hi, "hop": hop.text()}),
                                json!("matches iff both halves match"),
                                obs,
                                "conjunction of bounds",
                            )),
                        }
                    }
                }
            }
        }
    });
    // ... and of three-component versions: the same values in six spellings as lower bound, upper
    // bound and package version (a range is about values, not about the text its bounds share)
    {
        let triples: [(u32, u32, u32); 7] = [(1, 2, 3), (1, 2, 5), (1, 2, 9), (1, 0, 0), (1, 0, 5), (1, 3, 0), (2, 0, 0)];
        let mut rel3: Vec<String> = vec![];
        for (a, b, c) in triples {
            rel3.push(format!("{}.{}.{}", a, b, c));
            rel3.push(format!("{}.0{}.{}", a, b, c));
            rel3.push(format!("0{}.{}.00{}", a, b, c));
            rel3.push(format!("{}_{}_{}", a, b, c));
            rel3.push(format!("{}pl{}.{}.", a, b, c));
            rel3.push(format!("{}.{}.{}.0", a, b, c));
        }
        rel3.extend(["1...", "1..", "1.2.", "1.2..5"].iter().map(|x| x.to_string()));
        run.bound(format!("two-bound, spellings of three-component versions: {0} x {0} (L, U) x {0} package versions x 4 operator combinations (quick: every second L), halves by direct calls", rel3.len()));
        let idx: Vec<usize> = (0..rel3.len()).collect();
        par_items(&run, "C03 spelled bounds", &idx, |_, ai, t| {
            for (li, lo) in rel3.iter().enumerate() {
                if !run.thorough() && (li + *ai + li / 6 + *ai / 6) % 2 == 1 {
                    continue;
                }
                for hi in rel3.iter() {
                    for lop in [Op::Gt, Op::Ge] {
                        for hop in [Op::Lt, Op::Le] {
                            t.evals += 1;
                            t.validated += 3;
                            t.transitions += 3;
                            t.nontrivial += 1;
                            match two_bound(&rel3[*ai], lo, lop, hi, hop) {
                                None => t.outcome("two-bound/related-consistent"),
                                Some(obs) => t.violation(Violation::new(
                                    "two-bound",
                                    json!({"a": rel3[*ai], "lo": lo, "lop": lop.text(), "hi": hi, "hop": hop.text()}),
                                    json!("matches iff both halves match"),
                                    obs,
                                    "conjunction of bounds",
                                )),
                            }
                        }
                    }
                }
            }
        });
    }
    run.finish();
}
