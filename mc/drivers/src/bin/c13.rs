//! C13 - digests equal the standard algorithms for every input and every read
//! pattern; read errors are errors; the patch hash filters `$NetBSD` lines;
//! algorithm names parse case-insensitively.
//!
//! Environment explorer: a scripted `Read` answers call i with the i-th script
//! entry (default: fill the caller's buffer).  All scripts with 0, then 1,
//! then 2 deviations from the default are enumerated; for inputs of <= 10
//! bytes every composition of the input into reads is enumerated.

use mc_core::model::digest as mdigest;
use mc_core::par::par_items;
use mc_core::seqs;
use mc_core::{bytes_from_json, bytes_json, guard, Run, Tally, Violation};
use pkgsrc::digest::{Digest, DigestError};
use serde_json::{json, Value};
use std::io::Read;
use std::str::FromStr;

#[derive(Clone, Copy, Debug, PartialEq, Eq)]
enum Ans {
    /// as many bytes as fit
    Fill,
    /// at most n bytes (n >= 1)
    Bytes(usize),
    Interrupted,
    Error,
    /// hard errors of other kinds: only EINTR may be retried
    WouldBlock,
    TimedOut,
    UnexpectedEof,
    InvalidData,
    /// any other kind of hard error (index into KINDS)
    Kind(u8),
}

use std::io::ErrorKind as K;
const KINDS: [(K, &str); 15] = [
    (K::BrokenPipe, "BrokenPipe"), (K::ConnectionReset, "ConnectionReset"), (K::ConnectionAborted, "ConnectionAborted"), (K::ConnectionRefused, "ConnectionRefused"),
    (K::NotConnected, "NotConnected"), (K::NotFound, "NotFound"), (K::PermissionDenied, "PermissionDenied"), (K::AddrInUse, "AddrInUse"), (K::AlreadyExists, "AlreadyExists"),
    (K::InvalidInput, "InvalidInput"), (K::WriteZero, "WriteZero"), (K::Unsupported, "Unsupported"), (K::OutOfMemory, "OutOfMemory"), (K::AddrNotAvailable, "AddrNotAvailable"), (K::Other, "Other"),
];

impl Ans {
    fn json(&self) -> Value {
        match self {
            Ans::Fill => json!("fill"),
            Ans::Bytes(n) => json!({"bytes": n}),
            Ans::Interrupted => json!("EINTR"),
            Ans::Error => json!("error"),
            Ans::WouldBlock => json!("WouldBlock"),
            Ans::TimedOut => json!("TimedOut"),
            Ans::UnexpectedEof => json!("UnexpectedEof"),
            Ans::InvalidData => json!("InvalidData"),
            Ans::Kind(k) => json!({"kind": KINDS[*k as usize].1}),
        }
    }
    fn from_json(v: &Value) -> Ans {
        if let Some(n) = v["bytes"].as_u64() {
            Ans::Bytes(n as usize)
        } else if let Some(k) = v["kind"].as_str() {
            Ans::Kind(KINDS.iter().position(|x| x.1 == k).unwrap_or(0) as u8)
        } else {
            match v.as_str() {
                Some("EINTR") => Ans::Interrupted,
                Some("error") => Ans::Error,
                Some("WouldBlock") => Ans::WouldBlock,
                Some("TimedOut") => Ans::TimedOut,
                Some("UnexpectedEof") => Ans::UnexpectedEof,
                Some("InvalidData") => Ans::InvalidData,
                _ => Ans::Fill,
            }
        }
    }
}

/// (position before the call, caller's buffer length) of every call made
type CallLog = Vec<(usize, usize)>;

struct Scripted<'a> {
    data: &'a [u8],
    pos: usize,
    script: &'a [Ans],
    calls: CallLog,
    error_delivered: bool,
}

impl<'a> Read for Scripted<'a> {
    fn read(&mut self, buf: &mut [u8]) -> std::io::Result<usize> {
        let i = self.calls.len();
        self.calls.push((self.pos, buf.len()));
        let a = self.script.get(i).copied().unwrap_or(Ans::Fill);
        let remaining = self.data.len() - self.pos;
        let n = match a {
            Ans::Interrupted => return Err(std::io::Error::new(std::io::ErrorKind::Interrupted, "scripted EINTR")),
            Ans::Error | Ans::WouldBlock | Ans::TimedOut | Ans::UnexpectedEof | Ans::InvalidData | Ans::Kind(_) => {
                self.error_delivered = true;
                let kind = match a {
                    Ans::WouldBlock => std::io::ErrorKind::WouldBlock,
                    Ans::TimedOut => std::io::ErrorKind::TimedOut,
                    Ans::UnexpectedEof => std::io::ErrorKind::UnexpectedEof,
                    Ans::InvalidData => std::io::ErrorKind::InvalidData,
                    Ans::Kind(k) => KINDS[k as usize].0,
                    _ => std::io::ErrorKind::Other,
                };
                return Err(std::io::Error::new(kind, "scripted I/O error"));
            }
            Ans::Fill => remaining.min(buf.len()),
            Ans::Bytes(k) => k.max(1).min(remaining).min(buf.len()),
        };
        buf[..n].copy_from_slice(&self.data[self.pos..self.pos + n]);
        self.pos += n;
        Ok(n)
    }
}

#[derive(Clone, Copy, PartialEq, Eq, Debug)]
enum Entry {
    File,
    Patch,
}

fn algo(name: &str) -> Digest {
    Digest::from_str(name).expect("algorithm name")
}

struct Obs {
    result: Result<String, String>,
    calls: CallLog,
    error_delivered: bool,
    consumed: usize,
}

fn execute(data: &[u8], a: &str, entry: Entry, script: &[Ans]) -> Result<Obs, String> {
    let mut r = Scripted { data, pos: 0, script, calls: vec![], error_delivered: false };
    let res = guard(|| {
        let d = algo(a);
        match entry {
            Entry::File => d.hash_file(&mut r),
            Entry::Patch => d.hash_patch(&mut r),
        }
    })?;
    Ok(Obs {
        result: match res {
            Ok(h) => Ok(h),
            Err(DigestError::Io(e)) => Err(format!("Io({:?})", e.kind())),
            Err(DigestError::Unsupported(s)) => Err(format!("Unsupported({})", s)),
        },
        calls: r.calls,
        error_delivered: r.error_delivered,
        consumed: r.pos,
    })
}

fn want_hash(data: &[u8], a: &str, entry: Entry) -> String {
    match entry {
        Entry::File => mdigest::digest(a, data),
        Entry::Patch => mdigest::digest(a, &mdigest::patch_filter(data)),
    }
}

fn case(data: &[u8], a: &str, entry: Entry, script: &[Ans]) -> Value {
    json!({"input": if data.len() <= 400 { bytes_json(data) } else { mc_core::bytes_json_rle(data) },
           "algo": a, "entry": if entry == Entry::File { "hash_file" } else { "hash_patch" },
           "script": script.iter().map(|x| x.json()).collect::<Vec<_>>()})
}

/// Run one schedule and judge it.  Returns the observation for the explorer.
fn run_schedule(t: &mut Tally, data: &[u8], a: &str, entry: Entry, script: &[Ans], want: &str) -> Option<Obs> {
    t.evals += 1;
    t.validated += 1;
    t.states += 1;
    let obs = match execute(data, a, entry, script) {
        Ok(o) => o,
        Err(m) => {
            t.violation(Violation::new("schedule", case(data, a, entry, script), json!(want), json!(format!("panic: {}", m)), "hashing panicked"));
            return None;
        }
    };
    t.transitions += obs.calls.len() as u64;
    let deviations = script.iter().filter(|x| **x != Ans::Fill).count();
    if deviations > 0 {
        t.nontrivial += 1;
    }
    if obs.error_delivered {
        match &obs.result {
            Err(e) if e.starts_with("Io(") => t.outcome("error-returned-as-Io"),
            other => t.violation(Violation::new("schedule", case(data, a, entry, script), json!("Err(Io)"), json!(format!("{:?}", other)), "a read error must be returned as an error, never hashed past")),
        }
    } else {
        match &obs.result {
            Ok(h) if h == want => {
                if obs.consumed != data.len() {
                    t.violation(Violation::new("schedule", case(data, a, entry, script), json!(data.len()), json!(obs.consumed), "digest is right but the stream was not read to its end"));
                } else {
                    t.outcome(if script.iter().any(|x| *x == Ans::Interrupted) { "digest/with-EINTR" } else if deviations > 0 { "digest/short-reads" } else { "digest/default-schedule" });
                }
            }
            other => t.violation(Violation::new("schedule", case(data, a, entry, script), json!(want), json!(format!("{:?}", other)), "digest differs from the standard algorithm's lower-case hex digest of the input (patches: input without $NetBSD lines)")),
        }
    }
    Some(obs)
}

/// Alternatives to the default answer at a call made at `pos` with a buffer of `blen`.
fn alternatives(data: &[u8], pos: usize, blen: usize, entry: Entry) -> Vec<Ans> {
    let avail = (data.len() - pos).min(blen);
    let mut v = vec![];
    if avail >= 2 {
        v.push(Ans::Bytes(1));
        for k in [(avail + 1) / 2, avail - 1] {
            if k >= 1 && k < avail && !v.contains(&Ans::Bytes(k)) {
                v.push(Ans::Bytes(k));
            }
        }
        if entry == Entry::Patch {
            let rest = &data[pos..pos + avail];
            // a read ending inside the next "$NetBSD" marker, and one ending right after the next newline
            if let Some(m) = rest.windows(7).position(|w| w == b"$NetBSD") {
                let k = m + 3;
                if k >= 1 && k < avail && !v.contains(&Ans::Bytes(k)) {
                    v.push(Ans::Bytes(k));
                }
            }
            if let Some(nl) = rest.iter().position(|c| *c == b'\n') {
                let k = nl + 1;
                if k < avail && !v.contains(&Ans::Bytes(k)) {
                    v.push(Ans::Bytes(k));
                }
            }
        }
    }
    v.push(Ans::Interrupted);
    v.push(Ans::Error);
    // the other error kinds only on small inputs (the code path does not depend on the data)
    if data.len() <= 16 {
        v.extend([Ans::WouldBlock, Ans::TimedOut, Ans::UnexpectedEof, Ans::InvalidData]);
        v.extend((0..KINDS.len()).map(|k| Ans::Kind(k as u8)));
    }
    v
}

/// Deviation-bounded exploration: the default script, then every script with
/// one more deviation at a call index at or after the last deviation.
fn explore(t: &mut Tally, data: &[u8], a: &str, entry: Entry, want: &str, bound: usize) {
    fn rec(t: &mut Tally, data: &[u8], a: &str, entry: Entry, want: &str, script: &mut Vec<Ans>, from: usize, left: usize) {
        let Some(obs) = run_schedule(t, data, a, entry, script, want) else { return };
        if left == 0 {
            return;
        }
        // replay determinism: the same script must give the same call log
        let calls = obs.calls.clone();
        for i in from..calls.len() {
            let (pos, blen) = calls[i];
            for alt in alternatives(data, pos, blen, entry) {
                let mut s2 = script.clone();
                while s2.len() < i {
                    s2.push(Ans::Fill);
                }
                s2.truncate(i);
                s2.push(alt);
                // EINTR does not advance the call's data position: allow a second deviation at the retried call
                rec(t, data, a, entry, want, &mut s2, i + 1, left - 1);
            }
        }
    }
    let mut script = vec![];
    rec(t, data, a, entry, want, &mut script, 0, bound);
}

/// Every composition of the input into reads, with and without one EINTR
/// before each read.
fn all_compositions(t: &mut Tally, data: &[u8], a: &str, entry: Entry, want: &str) {
    let n = data.len();
    let masks: u32 = if n == 0 { 1 } else { 1 << (n - 1) };
    for m in 0..masks {
        let mut script = vec![];
        let mut run_len = 1;
        for i in 0..n.saturating_sub(1) {
            if m >> i & 1 == 1 {
                script.push(Ans::Bytes(run_len));
                run_len = 1;
            } else {
                run_len += 1;
            }
        }
        if n > 0 {
            script.push(Ans::Bytes(run_len));
        }
        run_schedule(t, data, a, entry, &script, want);
        for j in 0..=script.len() {
            let mut s2 = script.clone();
            s2.insert(j, Ans::Interrupted);
            run_schedule(t, data, a, entry, &s2, want);
        }
    }
}

fn pattern_bytes(len: usize) -> Vec<u8> {
    (0..len).map(|i| ((i * 7 + 3) % 256) as u8).collect()
}

fn ascii_text(len: usize) -> String {
    (0..len).map(|i| (b'a' + (i % 26) as u8) as char).collect()
}

const PATCH_LINES: [&[u8]; 8] = [b"a\n", b"$NetBSD$\n", b"x $NetBSD: y $ z\n", b"$NetBS\n", b"\n", b"D$ tail", b"${V} $x $NetBSD: y $\r\n", b"caf\xe9 \r\n"];
/// near misses of the marker: none of these lines contains "$NetBSD"
const NEAR_MISS: [&[u8]; 10] = [b"see NetBSD PR 1\n", b"$netbsd$\n", b"$NETBSD: x $\n", b"$Id$\n", b"$ NetBSD$\n", b"$FreeBSD$\n", b"$Net BSD$\n", b"NetBSD$\n", b"$NetBS D$\n", b"$NetBS\0D$\n"];

fn patch_inputs(max_lines: usize) -> Vec<Vec<u8>> {
    let mut out = vec![];
    let mut pre = vec![];
    let mut visit = |s: &[usize]| {
        let mut c = vec![];
        for i in s {
            c.extend_from_slice(PATCH_LINES[*i]);
        }
        out.push(c);
    };
    seqs::dfs(PATCH_LINES.len(), max_lines, &mut pre, &|s: &[usize]| s.len() >= 2 && s[..s.len() - 1].contains(&5), &mut visit);
    // marker lines that are not UTF-8 (a Latin-1 author name): the marker is a byte string
    for bad in [&b"$NetBSD: patch-aa,v 1.1 caf\xe9 $\n"[..], b"\xff $NetBSD$\n", b"+ $NetBSD$ \xc3\n", b"\x80$NetBSD\n"] {
        out.push([b"a\n".as_slice(), bad, b"b\n"].concat());
        out.push(bad[..bad.len() - 1].to_vec());
        out.push([bad, b"kept \xe9\n", bad].concat());
    }
    for near in NEAR_MISS {
        out.push([b"a\n".as_slice(), near, b"b\n"].concat());
        out.push(near[..near.len() - 1].to_vec());
        out.push([near, b"$NetBSD$\n", near].concat());
    }
    // a final unterminated line ending exactly in the marker
    for tail in [&b"$NetBSD"[..], b"a\n# $NetBSD", b"a\n$NetBS", b"x $NetBSD$"] {
        out.push(tail.to_vec());
    }
    // markers and newlines straddling the 8 KiB buffer boundary
    for pad in [8185usize, 8186, 8188, 8190, 8191, 8192] {
        let mut c = vec![b'p'; pad];
        c.extend_from_slice(b"$NetBSD$ tail\nkept line\n");
        out.push(c.clone());
        let mut c2 = vec![b'q'; pad];
        c2.push(b'\n');
        c2.extend_from_slice(b"$NetBSD: x $\nlast");
        out.push(c2);
    }
    out
}

fn name_table(t: &mut Tally) {
    let names = mdigest::ALGOS;
    for (k, n) in names.iter().enumerate() {
        let chars: Vec<char> = n.chars().collect();
        let letters: Vec<usize> = (0..chars.len()).filter(|i| chars[*i].is_ascii_alphabetic()).collect();
        for m in 0u32..(1 << letters.len()) {
            let mut c = chars.clone();
            for (b, i) in letters.iter().enumerate() {
                c[*i] = if m >> b & 1 == 1 { c[*i].to_ascii_uppercase() } else { c[*i].to_ascii_lowercase() };
            }
            let s: String = c.into_iter().collect();
            t.evals += 1;
            t.validated += 1;
            t.states += 1;
            let r = guard(|| Digest::from_str(&s).map(|d| (d.to_string(), Digest::from_str(&d.to_string()).map(|x| x == d).unwrap_or(false))));
            match r {
                Ok(Ok((shown, again))) if shown == names[k] && again => t.outcome("name/case-variant-accepted"),
                other => t.violation(Violation::new("name", json!({"name": s}), json!({"parses to": names[k], "prints as": names[k]}), json!(format!("{:?}", other.map(|r| r.map_err(|e| e.to_string())))), "algorithm names parse case-insensitively and print in canonical spelling")),
            }
        }
        // every string at edit distance 1 (ASCII) must be unsupported unless it is itself a name
        let alphabet: Vec<char> = "abcdefghijklmnopqrstuvwxyz0123456789_- ".chars().collect();
        let mut near: Vec<String> = vec![];
        for i in 0..=chars.len() {
            for a in &alphabet {
                let mut c = chars.clone();
                c.insert(i, *a);
                near.push(c.into_iter().collect());
            }
            if i < chars.len() {
                let mut c = chars.clone();
                c.remove(i);
                near.push(c.into_iter().collect());
                for a in &alphabet {
                    let mut c = chars.clone();
                    c[i] = *a;
                    near.push(c.into_iter().collect());
                }
            }
        }
        for s in near {
            let is_name = names.iter().any(|x| x.eq_ignore_ascii_case(&s));
            t.evals += 1;
            t.validated += 1;
            t.states += 1;
            // one of the six names must be accepted; for any other string the statement only fixes
            // what an accepted name prints as: one of the six canonical spellings, which parses back
            let r = guard(|| Digest::from_str(&s).ok().map(|d| (d.to_string(), Digest::from_str(&d.to_string()).map(|x| x == d).unwrap_or(false))));
            match r {
                Ok(None) if !is_name => t.outcome("name/near-miss-rejected"),
                Ok(Some((shown, again))) if names.contains(&shown.as_str()) && again && (!is_name || shown.eq_ignore_ascii_case(&s)) => t.outcome(if is_name { "name/case-variant-accepted" } else { "name/alias-accepted (not constrained)" }),
                other => t.violation(Violation::new("name", json!({"name": s}), json!(if is_name { "accepted, printing as its canonical spelling" } else { "rejected, or an alias printing as one of the six canonical spellings" }), json!(format!("{:?}", other)), "algorithm names parse case-insensitively and print in their canonical spelling")),
            }
        }
    }
}

fn check_str(t: &mut Tally, s: &str) {
    for a in mdigest::ALGOS {
        t.evals += 1;
        t.validated += 1;
        t.states += 1;
        let want = mdigest::digest(a, s.as_bytes());
        let r = guard(|| algo(a).hash_str(s));
        match r {
            Ok(Ok(h)) if h == want => t.outcome("hash_str/ok"),
            other => t.violation(Violation::new("str", json!({"input": s, "algo": a}), json!(want), json!(format!("{:?}", other.map(|r| r.map_err(|e| e.to_string())))), "hash_str differs from the standard digest")),
        }
    }
}

fn replay(doc: &Value) -> Option<Violation> {
    let c = &doc["case"];
    let mut t = Tally::new();
    match doc["kind"].as_str() {
        Some("schedule") => {
            let data = bytes_from_json(&c["input"]);
            let a = c["algo"].as_str().unwrap_or("SHA1");
            let entry = if c["entry"] == "hash_patch" { Entry::Patch } else { Entry::File };
            let script: Vec<Ans> = c["script"].as_array().map(|v| v.iter().map(Ans::from_json).collect()).unwrap_or_default();
            let want = want_hash(&data, a, entry);
            run_schedule(&mut t, &data, a, entry, &script, &want);
        }
        Some("str") => check_str(&mut t, c["input"].as_str().unwrap_or("")),
        _ => name_table(&mut t),
    }
    t.violations.into_iter().next()
}

fn main() {
    let run = Run::from_args("C13");
    if let Some(doc) = run.replay_case() {
        run.finish_replay(replay(doc), replay(doc));
    }
    let bad = mdigest::self_test();
    if !bad.is_empty() {
        run.fault(&format!("digest oracle fails its published vectors: {:?}", bad));
    }
    run.rule(
        "inputs: byte patterns of every length 0..=L plus 8191/8192/8193/16385/70000; patch inputs \
         = every sequence of <= 4 lines over {a, $NetBSD$, a line containing $NetBSD: ... $, \
         '$NetBS' (marker split over a line break), empty, unterminated 'D$ tail'} plus lines \
         straddling the 8 KiB buffer boundary; x 6 algorithms x hash_file / hash_patch (hash_str for \
         text). Read schedules by a scripted reader: the default, then every schedule with <= D \
         deviations {1 byte, half, all-but-one, inside the next marker, just after the next \
         newline, EINTR, hard error (kinds Other, WouldBlock, TimedOut, UnexpectedEof, InvalidData)} at every read call; for inputs <= 10 bytes every composition \
         into reads with and without one EINTR before each read. Oracle: RustCrypto one-shot digest \
         of the (filtered) input, Err(Io) iff a hard error was delivered. Name table: every case \
         variant, canonical printing, every edit-distance-1 string. Non-trivial = schedules with \
         at least one deviation.",
    );
    run.assume("digest oracle = RustCrypto one-shot functions self-tested against RFC 1321, FIPS 180-4, RIPEMD-160 and RFC 7693 vectors");
    run.assume("collision-style claims are out of scope: equality with the standard function is established on the explored inputs only");

    #[derive(Clone)]
    struct Job {
        data: Vec<u8>,
        entry: Entry,
        bound: usize,
        compositions: bool,
    }
    let mut jobs: Vec<Job> = vec![];
    let l = run.pick(140, 300);
    for len in 0..=l {
        let d = pattern_bytes(len);
        for entry in [Entry::File, Entry::Patch] {
            let bound = if run.thorough() && len <= 64 { 3 } else { 2 };
            jobs.push(Job { data: d.clone(), entry, bound, compositions: len <= run.pick(8, 10) });
        }
    }
    for len in [8191usize, 8192, 8193, 16385, 70000] {
        if !run.thorough() && len == 70000 {
            continue;
        }
        for entry in [Entry::File, Entry::Patch] {
            jobs.push(Job { data: pattern_bytes(len), entry, bound: run.pick(1, 2), compositions: false });
        }
    }
    // scale: sizes around every power of two up to 1 MiB (block, buffer and chunk thresholds)
    for k in 9..=20u32 {
        for d in [-1i64, 0, 1] {
            let len = ((1i64 << k) + d) as usize;
            if [8191usize, 8192, 8193].contains(&len) {
                continue;
            }
            for entry in [Entry::File, Entry::Patch] {
                jobs.push(Job { data: pattern_bytes(len), entry, bound: if k <= 14 { 1 } else { 0 }, compositions: false });
            }
        }
    }
    // large patch inputs: many lines with a marker line every 97th, and lines longer than 64 KiB
    {
        let mut many = vec![];
        for i in 0..run.pick(3000, 20000) {
            if i % 97 == 5 {
                many.extend_from_slice(format!("# $NetBSD: file{},v 1.{} $\n", i, i).as_bytes());
            } else {
                many.extend_from_slice(format!("+line {} of the patch\n", i).as_bytes());
            }
        }
        jobs.push(Job { data: many.clone(), entry: Entry::Patch, bound: 1, compositions: false });
        jobs.push(Job { data: many, entry: Entry::File, bound: 0, compositions: false });
        for pad in [65_529usize, 65_536, 70_000, 131_072] {
            let mut c = vec![b'w'; pad];
            c.extend_from_slice(b" $NetBSD$\nkept\n");
            c.extend_from_slice(&vec![b'k'; pad]);
            c.extend_from_slice(b"\nlast $NetBSD");
            jobs.push(Job { data: c, entry: Entry::Patch, bound: 1, compositions: false });
        }
    }
    // dense markers: 8-byte marker lines alternating with 8-byte kept lines, behind 0..15 filler
    // bytes - for every stream offset and each of the six ways to split the marker there is a
    // member with a marker split exactly there (whatever block size an implementation reads in)
    {
        let total = run.pick(320 * 1024, 2560 * 1024);
        for shift in 0..16usize {
            let mut c: Vec<u8> = vec![];
            if shift > 0 {
                c.extend(std::iter::repeat(b'f').take(shift - 1));
                c.push(b'\n');
            }
            let mut i = 0u32;
            while c.len() < total {
                c.extend_from_slice(b"$NetBSD\n");
                c.extend_from_slice(format!("k{:06}\n", i % 1_000_000).as_bytes());
                i += 1;
            }
            jobs.push(Job { data: c, entry: Entry::Patch, bound: 0, compositions: false });
        }
    }
    // very long lines (2^k + d bytes, k = 17..=23, thorough 24): the marker at the start, in the
    // middle (just past 2^(k-1)) and at the end of one line; the line must vanish as a whole
    for k in 17..=run.pick(23, 24) as u32 {
        for d in [-1i64, 0, 1] {
            let len = ((1i64 << k) + d) as usize;
            for at in [0usize, (len / 2) + 3, len - 9] {
                let mut c = b"first\n".to_vec();
                let mut line = vec![b'L'; len];
                line[at..at + 7].copy_from_slice(b"$NetBSD");
                c.extend_from_slice(&line);
                c.extend_from_slice(b"\nkept after the long line\n");
                jobs.push(Job { data: c, entry: Entry::Patch, bound: 0, compositions: false });
            }
        }
        // no marker at all: the whole long line is hashed
        let mut c = vec![b'N'; (1usize << k) + 1];
        c.extend_from_slice(b"\n$NetBSD$\nend");
        jobs.push(Job { data: c, entry: Entry::Patch, bound: 0, compositions: false });
    }
    let pi = patch_inputs(run.pick(3, 4));
    for d in &pi {
        let small = d.len() <= run.pick(8, 10);
        jobs.push(Job { data: d.clone(), entry: Entry::Patch, bound: if d.len() > 1000 { run.pick(1, 2) } else { 2 }, compositions: small });
        jobs.push(Job { data: d.clone(), entry: Entry::File, bound: if d.len() > 1000 { 0 } else { 1 }, compositions: false });
    }
    // '$' characters in front of, inside and behind the marker: every line of <= 5 (6) tokens over
    // {'$', 'x', '$NetBSD', ' '} between two kept lines - the marker counts wherever its seven
    // bytes stand, whatever '$' pairs precede it
    {
        const TOK: [&[u8]; 4] = [b"$", b"x", b"$NetBSD", b" "];
        let max = run.pick(5, 6);
        let mut idx: Vec<Vec<usize>> = vec![vec![]];
        let mut n = 0usize;
        for _ in 0..max {
            let mut next = vec![];
            for pre in &idx {
                for k in 0..TOK.len() {
                    let mut v = pre.clone();
                    v.push(k);
                    next.push(v);
                }
            }
            for v in &next {
                let mut c = b"a\n".to_vec();
                for k in v {
                    c.extend_from_slice(TOK[*k]);
                }
                c.extend_from_slice(b"\nb\n");
                jobs.push(Job { data: c, entry: Entry::Patch, bound: 0, compositions: false });
                n += 1;
            }
            idx = next;
        }
        run.bound(format!("{} patches whose middle line is a sequence of <= {} tokens over {{'$', 'x', '$NetBSD', ' '}} (default read schedule)", n, max));
    }
    run.bound(format!("{} (input, entry point) jobs x 6 algorithms: lengths 0..={} and KiB boundaries, {} patch inputs, 16 dense-marker patches (a marker split at every stream offset); deviation bound 2 (3 for inputs <= 64 bytes in the thorough tier, 1 for multi-KiB inputs in the quick tier); all compositions for inputs <= {} bytes", jobs.len(), l, pi.len(), run.pick(8, 10)));
    par_items(&run, "C13 schedules", &jobs, |i, job, t| {
        for a in mdigest::ALGOS {
            let want = want_hash(&job.data, a, job.entry);
            explore(t, &job.data, a, job.entry, &want, job.bound);
            if job.compositions {
                all_compositions(t, &job.data, a, job.entry, &want);
            }
        }
        t.sample(run.seed, i as u64, || json!({"input_len": job.data.len(), "entry": format!("{:?}", job.entry), "deviation_bound": job.bound, "all_compositions": job.compositions}));
    });

    // runs of consecutive EINTR answers (1, 2, 3, 2^e-1, 2^e, 2^e+1 up to 2^20, powers of ten) before the first
    // read, before a middle read and before the read that reports end of file; and a reader that
    // hands out one byte per call for the whole input
    {
        let mut runs: Vec<usize> = vec![1, 2, 3, 5, 10, 100, 1000, 10000, 100_000, 100_001, 300_000, 1_000_000];
        for e in 2..=run.pick(20, 22) as u32 {
            for d in [-1i64, 0, 1] {
                runs.push(((1i64 << e) + d) as usize);
            }
        }
        runs.sort();
        runs.dedup();
        let inputs: Vec<Vec<u8>> = vec![vec![], b"a\n$NetBSD$\nb\n".to_vec(), pattern_bytes(20000)];
        let items: Vec<(usize, usize, Entry)> = runs.iter().flat_map(|r| (0..inputs.len()).flat_map(move |i| [Entry::File, Entry::Patch].into_iter().map(move |e| (*r, i, e)))).collect();
        run.bound(format!("EINTR runs: {} run lengths up to 2^20+1 (thorough 2^22+1) x 3 inputs x 2 entry points x 3 positions x 6 algorithms; one-byte-per-call reader on inputs up to 70000 bytes", runs.len()));
        par_items(&run, "C13 EINTR runs", &items, |_, (r, i, entry), t| {
            let data = &inputs[*i];
            for a in mdigest::ALGOS {
                let want = want_hash(data, a, *entry);
                // where: 0 = before the first call, 1 = after one successful call, 2 = before the last (EOF) call
                let base = execute(data, a, *entry, &[]).map(|o| o.calls.len()).unwrap_or(1);
                for pre in [0usize, 1.min(base - 1), base - 1] {
                    let mut script = vec![Ans::Fill; pre];
                    script.extend(std::iter::repeat(Ans::Interrupted).take(*r));
                    run_schedule(t, data, a, *entry, &script, &want);
                }
            }
        });
        // EINTRs spread over a call rather than consecutive: one before every one-byte read
        {
            let mut t = Tally::new();
            for len in [1000usize, 70_000, 150_000] {
                let data = pattern_bytes(len);
                let mut script = Vec::with_capacity(2 * len + 4);
                for _ in 0..len + 1 {
                    script.push(Ans::Interrupted);
                    script.push(Ans::Bytes(1));
                }
                for entry in [Entry::File, Entry::Patch] {
                    for a in ["SHA1", "MD5"] {
                        let want = want_hash(&data, a, entry);
                        run_schedule(&mut t, &data, a, entry, &script, &want);
                    }
                }
            }
            run.merge(t);
        }
        let mut t = Tally::new();
        for len in [1usize, 100, 8193, 70000] {
            let data = pattern_bytes(len);
            let script = vec![Ans::Bytes(1); len + 2];
            for entry in [Entry::File, Entry::Patch] {
                for a in mdigest::ALGOS {
                    let want = want_hash(&data, a, entry);
                    run_schedule(&mut t, &data, a, entry, &script, &want);
                }
            }
        }
        run.merge(t);
    }

    let mut t = Tally::new();
    for len in 0..=l {
        check_str(&mut t, &ascii_text(len));
    }
    check_str(&mut t, "h\u{e9}llo \u{1f600}");
    // hash_str hashes exactly the string's bytes: no trimming, no patch filtering
    for s in ["a\n", "a\n\n", "\na", " a", "a ", "\t", "\0", "a\0b", "x\n$NetBSD$\n", "$NetBSD: y $", "a\r\n", "\u{feff}a", "\u{85}", "\u{a0}x\u{a0}"] {
        check_str(&mut t, s);
    }
    for d in patch_inputs(2) {
        if let Ok(s) = std::str::from_utf8(&d) {
            check_str(&mut t, s);
        }
    }
    name_table(&mut t);
    run.merge(t);
    run.finish();
}
