//! C16 - pbulk-index output splits into one record per PKGNAME, fields never
//! leaking; the read fails as a whole on a bad block or an I/O error.

use mc_core::model::pattern as mpat;
use mc_core::model::pkgpath as mpath;
use mc_core::model::scanindex::{self as msi, Record, SCALAR_KEYS};
use mc_core::par::par_items;
use mc_core::seqs;
use mc_core::{bytes_from_json, bytes_json, guard, Run, Tally, Violation};
use pkgsrc::ScanIndex;
use serde_json::{json, Value};
use std::io::{BufReader, Read};

const LINES: [&str; 25] = [
    "PKGNAME=a-1",
    "PKGNAME=b-2",
    " PKGNAME=c-3 ",
    "MAINTAINER=m1",
    "MAINTAINER=m2",
    "CATEGORIES= x y ",
    "PKG_SKIP_REASON=a=b",
    "ALL_DEPENDS=",
    "ALL_DEPENDS=p-[0-9]*:../../c/p q>=1:../../c/q",
    "ALL_DEPENDS=bad",
    "PKG_LOCATION=c/p",
    "PKG_LOCATION=nope",
    "SCAN_DEPENDS=/a /b",
    "MULTI_VERSION=A=1 B=2",
    "PKG_FAIL_REASON=f",
    "NO_BIN_ON_FTP=n",
    "RESTRICTED=r",
    "USE_DESTDIR=u",
    "BOOTSTRAP_PKG=yes",
    "USERGROUP_PHASE=pre",
    "PBULK_WEIGHT=200",
    "UNKNOWN=1",
    "no equals sign",
    "",
    "  ",
];

fn real_record(r: &ScanIndex) -> Record {
    let mut scalars = std::collections::BTreeMap::new();
    let fields: [(&str, &Option<String>); 10] = [
        ("PKG_SKIP_REASON", &r.pkg_skip_reason),
        ("PKG_FAIL_REASON", &r.pkg_fail_reason),
        ("NO_BIN_ON_FTP", &r.no_bin_on_ftp),
        ("RESTRICTED", &r.restricted),
        ("CATEGORIES", &r.categories),
        ("MAINTAINER", &r.maintainer),
        ("USE_DESTDIR", &r.use_destdir),
        ("BOOTSTRAP_PKG", &r.bootstrap_pkg),
        ("USERGROUP_PHASE", &r.usergroup_phase),
        ("PBULK_WEIGHT", &r.pbulk_weight),
    ];
    for (k, v) in fields {
        debug_assert!(SCALAR_KEYS.contains(&k));
        if let Some(v) = v {
            scalars.insert(k.to_string(), v.clone());
        }
    }
    // the sixteenth public field: nothing in the input is allowed to fill it (there is no
    // DEPENDS key among the fifteen), so a non-empty value shows up as a stray scalar
    if !r.depends.is_empty() {
        scalars.insert("<depends field>".to_string(), r.depends.iter().map(|d| d.pkgname().to_string()).collect::<Vec<_>>().join(" "));
    }
    Record {
        pkgname: r.pkgname.pkgname().to_string(),
        // normalised: category/package
        location: r.pkg_location.as_ref().map(|p| p.as_path().to_string_lossy().into_owned()),
        all_depends: r.all_depends.iter().map(|d| format!("{}:{}", d.pattern().pattern(), d.pkgpath().as_path().to_string_lossy())).collect(),
        scalars,
        scan_depends: r.scan_depends.iter().map(|p| p.to_string_lossy().into_owned()).collect(),
        multi_version: r.multi_version.clone(),
    }
}

/// Model records with locations/dependency paths normalised the same way.
fn normalise(mut r: Record) -> Record {
    r.location = r.location.map(|l| {
        let p = mpath::parse(&l).expect("validated");
        format!("{}/{}", p.category, p.package)
    });
    r.all_depends = r
        .all_depends
        .iter()
        .map(|d| {
            let (pat, path) = d.split_once(':').expect("validated");
            let p = mpath::parse(path).expect("validated");
            format!("{}:{}/{}", pat, p.category, p.package)
        })
        .collect();
    r
}

fn model(text: &str) -> Result<Option<Vec<Record>>, ()> {
    let lines: Vec<&str> = msi_lines(text);
    msi::parse(&lines, &|d| mpat::depend_valid(d), &|l| mpath::parse(l).is_some()).map(|o| o.map(|v| v.into_iter().map(normalise).collect()))
}

fn msi_lines(text: &str) -> Vec<&str> {
    let mut v: Vec<&str> = text.split('\n').collect();
    if text.ends_with('\n') {
        v.pop();
    }
    v
}

fn read_all(text: &[u8]) -> Result<Vec<Record>, String> {
    ScanIndex::from_reader(BufReader::new(text)).map(|v| v.iter().map(real_record).collect()).map_err(|e| format!("{:?}", e.kind()))
}

fn check_text(t: &mut Tally, text: &str) -> Option<bool> {
    t.evals += 1;
    t.validated += 1;
    let case = || json!({"text": text});
    let want = model(text);
    let got = match guard(|| read_all(text.as_bytes())) {
        Ok(g) => g,
        Err(m) => {
            t.violation(Violation::new("text", case(), json!("returns"), json!(format!("panic: {}", m)), "pbulk-index reader panicked"));
            return None;
        }
    };
    match (want, got) {
        (Ok(None), _) => {
            t.outcome("skipped/leading-ignorable-block");
            None
        }
        (Ok(Some(w)), Ok(g)) => {
            if w != g {
                let note = if w.len() != g.len() { "record count differs from the number of PKGNAME= lines" } else { "a field differs from the lines between its PKGNAME= line and the next" };
                t.violation(Violation::new("text", case(), json!(format!("{:?}", w)), json!(format!("{:?}", g)), note));
                return None;
            }
            if w.len() >= 2 {
                t.nontrivial += 1;
            }
            t.outcome(match w.len() {
                0 => "ok/no-records",
                1 => "ok/one-record",
                _ => "ok/several-records",
            });
            Some(true)
        }
        (Err(()), Err(_)) => {
            t.nontrivial += 1;
            t.outcome("err/bad-block");
            Some(false)
        }
        (Ok(Some(w)), Err(e)) => {
            t.violation(Violation::new("text", case(), json!(format!("Ok, {} records", w.len())), json!(format!("Err({})", e)), "well-formed input was rejected"));
            None
        }
        (Err(()), Ok(g)) => {
            t.violation(Violation::new("text", case(), json!("Err (block without PKGNAME, invalid dependency or location)"), json!(format!("Ok, {} records", g.len())), "the read must fail as a whole, never return a partial or shifted list"));
            None
        }
    }
}

struct Faulty<'a> {
    data: &'a [u8],
    pos: usize,
    calls: usize,
    fail_at: Option<usize>,
    eintr_at: Option<usize>,
    kind: std::io::ErrorKind,
}

impl<'a> Read for Faulty<'a> {
    fn read(&mut self, buf: &mut [u8]) -> std::io::Result<usize> {
        let i = self.calls;
        self.calls += 1;
        if Some(i) == self.fail_at {
            return Err(std::io::Error::new(self.kind, "injected I/O error"));
        }
        if Some(i) == self.eintr_at {
            return Err(std::io::Error::new(std::io::ErrorKind::Interrupted, "injected EINTR"));
        }
        let n = (self.data.len() - self.pos).min(buf.len());
        buf[..n].copy_from_slice(&self.data[self.pos..self.pos + n]);
        self.pos += n;
        Ok(n)
    }
}

fn read_faulty(text: &[u8], fail_at: Option<usize>, eintr_at: Option<usize>, cap: usize) -> (Result<Vec<Record>, String>, usize) {
    read_faulty_kind(text, fail_at, eintr_at, cap, std::io::ErrorKind::Other)
}

fn read_faulty_kind(text: &[u8], fail_at: Option<usize>, eintr_at: Option<usize>, cap: usize, kind: std::io::ErrorKind) -> (Result<Vec<Record>, String>, usize) {
    let mut calls = 0;
    let r = {
        let f = Faulty { data: text, pos: 0, calls: 0, fail_at, eintr_at, kind };
        let mut br = BufReader::with_capacity(cap, f);
        let r = ScanIndex::from_reader(&mut br).map(|v| v.iter().map(real_record).collect()).map_err(|e| format!("{:?}", e.kind()));
        calls += br.get_ref().calls;
        r
    };
    (r, calls)
}

fn check_faults(t: &mut Tally, text: &str) {
    let cap = 16;
    let base = match guard(|| read_faulty(text.as_bytes(), None, None, cap)) {
        Ok(b) => b,
        Err(_) => return,
    };
    let (base_res, ncalls) = base;
    for j in 0..ncalls {
        // a hard error at read call j: the whole read must fail
        t.evals += 1;
        t.validated += 1;
        t.transitions += 1;
        let case = || json!({"text": text, "buffer": cap, "hard_error_at_read_call": j});
        // every kind of hard error (only EINTR may be retried); the reader keeps delivering data afterwards
        use std::io::ErrorKind as K;
        for kind in [K::UnexpectedEof, K::InvalidData, K::WouldBlock, K::TimedOut, K::BrokenPipe, K::ConnectionReset, K::ConnectionAborted, K::ConnectionRefused, K::NotConnected, K::NotFound, K::PermissionDenied, K::AddrInUse, K::AddrNotAvailable, K::AlreadyExists, K::InvalidInput, K::WriteZero, K::Unsupported, K::OutOfMemory, K::Other] {
            t.evals += 1;
            t.validated += 1;
            match guard(|| read_faulty_kind(text.as_bytes(), Some(j), None, cap, kind).0) {
                Ok(Err(_)) => t.outcome("fault/io-error-propagated"),
                Ok(Ok(g)) => t.violation(Violation::new("fault", json!({"text": text, "buffer": cap, "hard_error_at_read_call": j, "kind": format!("{:?}", kind)}), json!("Err"), json!(format!("Ok, {} records", g.len())), "an I/O error from the reader (of any kind other than EINTR) must fail the read")),
                Err(m) => t.violation(Violation::new("fault", json!({"text": text, "kind": format!("{:?}", kind)}), json!("Err"), json!(format!("panic: {}", m)), "reader panicked")),
            }
        }
        match guard(|| read_faulty(text.as_bytes(), Some(j), None, cap).0) {
            Ok(Err(_)) => t.outcome("fault/io-error-propagated"),
            Ok(Ok(g)) => t.violation(Violation::new("fault", case(), json!("Err"), json!(format!("Ok, {} records", g.len())), "an I/O error from the reader must fail the read, never yield a partial list")),
            Err(m) => t.violation(Violation::new("fault", case(), json!("Err"), json!(format!("panic: {}", m)), "reader panicked")),
        }
        // EINTR at read call j: same result as without it
        t.evals += 1;
        t.validated += 1;
        t.transitions += 1;
        let case = || json!({"text": text, "buffer": cap, "eintr_at_read_call": j});
        match guard(|| read_faulty(text.as_bytes(), None, Some(j), cap).0) {
            Ok(g) if g == base_res => t.outcome("fault/eintr-transparent"),
            Ok(g) => t.violation(Violation::new("fault", case(), json!(format!("{:?}", base_res)), json!(format!("{:?}", g)), "an interrupted read changed the result")),
            Err(m) => t.violation(Violation::new("fault", case(), json!("returns"), json!(format!("panic: {}", m)), "reader panicked")),
        }
        t.nontrivial += 1;
    }
    // invalid UTF-8 in each line position
    let lines = msi_lines(text);
    for k in 0..lines.len() {
        let mut bytes = vec![];
        for (i, l) in lines.iter().enumerate() {
            bytes.extend_from_slice(l.as_bytes());
            if i == k {
                bytes.push(0xff);
            }
            bytes.push(b'\n');
        }
        t.evals += 1;
        t.validated += 1;
        t.transitions += 1;
        check_utf8(t, &bytes);
    }
}

/// A line that is not UTF-8: failing the read is one admissible answer; the statement does not
/// list it among the causes of failure, so a reader that decodes lossily is admissible too - but
/// then the list must be the complete, unshifted one for the decoded text.
fn check_utf8(t: &mut Tally, bytes: &[u8]) {
    let case = || json!({"bytes": bytes_json(bytes)});
    match guard(|| read_all(bytes)) {
        Ok(Err(_)) => t.outcome("fault/invalid-utf8-rejected"),
        Ok(Ok(g)) => match model(&String::from_utf8_lossy(bytes)) {
            Ok(Some(w)) if w == g => t.outcome("fault/invalid-utf8-decoded-lossily"),
            Ok(None) => t.outcome("skipped/leading-ignorable-block"),
            w => t.violation(Violation::new("utf8", case(), json!(format!("Err, or {:?}", w)), json!(format!("Ok({:?})", g)), "a line that is not UTF-8 must either fail the read as a whole or be read completely; never a partial or shifted list")),
        },
        Err(m) => t.violation(Violation::new("utf8", case(), json!("Err"), json!(format!("panic: {}", m)), "reader panicked")),
    }
}

fn replay(doc: &Value) -> Option<Violation> {
    let c = &doc["case"];
    let mut t = Tally::new();
    match doc["kind"].as_str() {
        Some("fault") => check_faults(&mut t, c["text"].as_str().unwrap_or("")),
        Some("utf8") => check_utf8(&mut t, &bytes_from_json(&c["bytes"])),
        _ => {
            check_text(&mut t, c["text"].as_str().unwrap_or(""));
        }
    }
    t.violations.into_iter().next()
}

fn main() {
    let run = Run::from_args("C16");
    if let Some(doc) = run.replay_case() {
        run.finish_replay(replay(doc), replay(doc));
    }
    run.rule(
        "every sequence of <= N lines over a 25-line alphabet: three PKGNAME lines (one with \
         surrounding blanks), repeated scalar keys with different values, values with inner '=' \
         and surrounding blanks, empty / two-item / invalid ALL_DEPENDS, valid / invalid \
         PKG_LOCATION, list keys, every remaining scalar key, unknown key, line without '=', empty \
         and blank lines. Oracle: reference splitter (records start at each PKGNAME= line; fields \
         from that block only; last scalar wins; lists split on blanks; Err if a block lacks \
         PKGNAME while holding a known key or any dependency/location is invalid); every public \
         field compared. Faults (sequences of <= M lines): a hard I/O error and an EINTR at every \
         read call of a 16-byte-buffered reader, and an invalid UTF-8 byte in every line. \
         Non-trivial = inputs with >= 2 records, rejected inputs, and every fault run.",
    );
    run.assume("no blank between key and '='; inputs whose first block holds only ignorable lines are skipped (the statement does not say whether they form a block lacking PKGNAME)");
    run.assume("dependency / location validity from the composed pattern and PKGPATH models; reference splitter mc/core/src/model/scanindex.rs");

    let n = run.pick(4, 6);
    let m = run.pick(3, 4);
    run.bound(format!("all {} sequences of <= {} lines; faults on all {} sequences of <= {} lines", seqs::count(LINES.len(), n), n, seqs::count(LINES.len(), m), m));
    seqs::par_seqs(&run, "C16", LINES.len(), n, 2, |_| false, |s, t| {
        let mut text = String::new();
        for i in s {
            text.push_str(LINES[*i]);
            text.push('\n');
        }
        check_text(t, &text);
        if s.len() <= m {
            check_faults(t, &text);
            if !text.is_empty() {
                // no final newline
                check_text(t, &text[..text.len() - 1]);
            }
        }
        t.sample(run.seed, s.iter().fold(1u64, |a, x| a * 31 + *x as u64), || json!({"text": text}));
    });
    // the base alphabet plus: empty and blank-only scalar values, unknown keys that extend or
    // case-fold a known key, a scalar reset to empty after a value
    {
        let mut lines2: Vec<&str> = LINES.to_vec();
        lines2.extend([
            "MAINTAINER=", "PKG_SKIP_REASON=  ", "CATEGORIES=", "PKG_LOCATION=", "PBULK_WEIGHT=",
            "PKGNAMEX=zz-9", "PKGNAME_OLD=b-2", "pkgname=z-1", "maintainer=zz", "XMAINTAINER=q", "MAINTAINERS=q", "Maintainer=q", "ALL_DEPENDSX=bad", "all_depends=bad", "PKG_LOCATIONS=nope",
            "PKGNAME=", "=PKGNAME=a-1", "PKGNAME", "PKGNAME=d-4=5",
            "SCAN_DEPENDS=a//b ./c d/ e/./f ../g //h", "SCAN_DEPENDS=.", "MULTI_VERSION=A=1 A=1 a=1",
            "DEPENDS=x-1 y-2", "DEPENDS=", "BUILD_DEPENDS=x-1", "DEPEND=x-1", "SCAN_DEPENDS_X=f", "MULTI_VERSIONS=A=1", "PKGPATH=c/p", "PKG_LOCATION_OLD=c/p", "COMMENT=c", "HOMEPAGE=h",
        ]);
        let n2 = run.pick(3, 4);
        run.bound(format!("all {} sequences of <= {} lines over the base alphabet plus {} lines (empty scalar values, unknown keys extending or case-folding known keys)", seqs::count(lines2.len(), n2), n2, lines2.len() - LINES.len()));
        seqs::par_seqs(&run, "C16 extended", lines2.len(), n2, 2, |_| false, |s, t| {
            if s.iter().all(|i| *i < LINES.len()) {
                return; // covered by the deep enumeration
            }
            let mut text = String::new();
            for i in s {
                text.push_str(lines2[*i]);
                text.push('\n');
            }
            check_text(t, &text);
        });
    }
    // scale: hundreds of records, hundreds of list items, lines longer than the reader's buffer
    {
        let mut t = Tally::new();
        for nrec in [9usize, 16, 17, 64, 300] {
            let mut text = String::new();
            for r in 0..nrec {
                text.push_str(&format!("PKGNAME=pkg{}-{}.{}nb{}\n", r, r % 7, r % 3, r % 5));
                if r % 2 == 0 {
                    text.push_str(&format!("MAINTAINER=m{}@example.org\n", r));
                }
                if r % 3 == 1 {
                    let deps: Vec<String> = (0..(r % 40 * 5)).map(|d| format!("dep{}-[0-9]*:../../cat{}/dep{}", d, d % 9, d)).collect();
                    text.push_str(&format!("ALL_DEPENDS= {} \n", deps.join("  ")));
                }
                if r % 5 == 2 {
                    text.push_str(&format!("PKG_LOCATION=cat{}/pkg{}\nCATEGORIES=c{}\n", r % 9, r, r));
                }
                if r % 4 == 3 {
                    let sd: Vec<String> = (0..(r % 50)).map(|d| format!("../../mk/file{}.mk", d)).collect();
                    text.push_str(&format!("SCAN_DEPENDS={}\nMULTI_VERSION= A={} B={}\n", sd.join(" "), r, r + 1));
                }
            }
            t.states += 1;
            t.transitions += nrec as u64;
            check_text(&mut t, &text);
            // one invalid dependency in the last record must fail the whole read
            let bad = format!("{}ALL_DEPENDS=ok>=1:../../c/p broken\n", text);
            check_text(&mut t, &bad);
            if nrec <= 17 {
                check_faults(&mut t, &text);
            }
        }
        run.bound("scale: inputs of 9..300 records with up to 195 dependencies and 49 scan files per record; long lines through a 16-byte buffered faulty reader");
        run.merge(t);
    }
    // character sweep: every non-blank ASCII and special non-ASCII character in names, values and keys
    {
        let mut t = Tally::new();
        let chars: Vec<char> = mc_core::chars::all().into_iter().filter(|c| !c.is_whitespace()).collect();
        run.bound(format!("character sweep: {} characters in five line positions", chars.len()));
        for c in chars {
            for line in [
                format!("PKGNAME=b{}-2", c), format!("MAINTAINER={}", c), format!("MAINTAINER=x{}y", c), format!("MAINT{}AINER=x", c), format!("{}PKGNAME=z-9", c),
            ] {
                let text = format!("PKGNAME=a-1\nCATEGORIES=c\n{}\nRESTRICTED=r\nPKGNAME=c-3\nMAINTAINER=m\n", line);
                t.states += 1;
                check_text(&mut t, &text);
            }
        }
        run.merge(t);
    }
    // one record with many lines: every scalar key repeated many times, interleaved (the last line
    // for a key wins), list keys repeated, unknown keys in between; 8..5000 lines
    {
        let mut t = Tally::new();
        let scalars = ["MAINTAINER", "CATEGORIES", "PKG_SKIP_REASON", "PKG_FAIL_REASON", "NO_BIN_ON_FTP", "RESTRICTED", "USE_DESTDIR", "BOOTSTRAP_PKG", "USERGROUP_PHASE", "PBULK_WEIGHT"];
        for lines in [8usize, 20, 36, 37, 41, 64, 100, 257, 1000, 5000] {
            for stride in [1usize, 3, 7] {
                let mut text = String::from("PKGNAME=many-1.0\n");
                for k in 0..lines {
                    let key = scalars[(k * stride) % scalars.len()];
                    text.push_str(&format!("{}={}{}\n", key, key.to_lowercase(), k));
                    if k % 9 == 4 {
                        text.push_str(&format!("UNKNOWN{}=u\nSCAN_DEPENDS=f{}.mk\n", k, k));
                    }
                }
                text.push_str("PKGNAME=next-2.0\nMAINTAINER=other\n");
                t.states += 1;
                t.transitions += lines as u64;
                check_text(&mut t, &text);
            }
        }
        run.bound("many-line records: one record of 8..5000 lines in which ten scalar keys repeat interleaved with three strides (last line wins), list keys and unknown keys in between");
        run.merge(t);
    }
    // many list items: ALL_DEPENDS / SCAN_DEPENDS with 2^k distinct items, each must come back
    {
        let ks: Vec<u32> = (8..=run.pick(17, 20) as u32).collect();
        run.bound(format!("many list items: records with 2^k distinct ALL_DEPENDS and SCAN_DEPENDS items for k = 8..={}", ks.last().unwrap()));
        par_items(&run, "C16 many items", &ks, |_, k, t| {
            let n = 1usize << k;
            let deps: Vec<String> = (0..n).map(|i| format!("dep{}-[0-9]*:../../cat{}/dep{}", i, i % 97, i)).collect();
            let scans: Vec<String> = (0..n).map(|i| format!("../../mk/f{}.mk", i)).collect();
            let text = format!("PKGNAME=a-1\nALL_DEPENDS={}\nSCAN_DEPENDS={}\nPKGNAME=b-2\nALL_DEPENDS={}\n", deps.join(" "), scans.join(" "), deps[..n / 2].join(" "));
            t.states += 1;
            t.transitions += 2 * n as u64;
            check_text(t, &text);
        });
    }
    // dependency items that point at the record itself, at a neighbour, or repeat: an item is an
    // item, whatever it names (list fields hold "the whitespace-separated items in order")
    {
        let mut t = Tally::new();
        let mut n = 0;
        for (name, loc) in [("foo-1.0", "cat/foo"), ("py311-bar-2.3nb1", "devel/py-bar"), ("a-1", "c/a")] {
            let base = &name[..name.rfind('-').unwrap()];
            let items = [
                format!("{}-[0-9]*:../../{}", base, loc), format!("{}:../../{}", name, loc), format!("{}>=0:../../{}", base, loc), format!("{}-[0-9]*:{}", base, loc),
                format!("{{{},x}}-[0-9]*:../../{}", base, loc), format!("*:../../{}", loc), format!("{}-[0-9]*:../../other/pkg", base), format!("other-[0-9]*:../../{}", loc),
            ];
            for i in 0..items.len() {
                for j in 0..items.len() {
                    let text = format!("PKGNAME={}\nPKG_LOCATION={}\nALL_DEPENDS={} dep-[0-9]*:../../cat/dep {}\nPKGNAME=next-1\nPKG_LOCATION={}\nALL_DEPENDS={}\n", name, loc, items[i], items[j], loc, items[j]);
                    t.states += 1;
                    n += 1;
                    check_text(&mut t, &text);
                    // the same with the location after the list, and twice
                    check_text(&mut t, &format!("PKGNAME={}\nALL_DEPENDS={} {}\nPKG_LOCATION={}\n", name, items[i], items[i], loc));
                }
            }
        }
        run.bound(format!("self-referring items: {} inputs whose ALL_DEPENDS items name the record's own package / location (eight shapes, all pairs), a neighbour's, or repeat", 2 * n));
        run.merge(t);
    }
    // items that collide under hand-written 32-bit hashes, side by side in one list (a memo of parsed
    // items keyed by such a hash returns the wrong item)
    {
        let mut t = Tally::new();
        let pairs = mc_core::chars::HASH_COLLISIONS;
        let deps: Vec<String> = pairs.iter().flat_map(|(a, b, _)| [format!("{}-[0-9]*:../../cat/pkg", a), format!("{}-[0-9]*:../../cat/pkg", b)]).collect();
        let scans: Vec<String> = pairs.iter().flat_map(|(a, b, _)| [format!("{}.mk", a), format!("{}.mk", b)]).collect();
        let text = format!("PKGNAME=a-1\nALL_DEPENDS={}\nSCAN_DEPENDS={}\nPKGNAME=b-2\nALL_DEPENDS={}\n", deps.join(" "), scans.join(" "), deps.iter().rev().cloned().collect::<Vec<_>>().join(" "));
        t.states += 1;
        t.transitions += 3;
        check_text(&mut t, &text);
        for (a, b, _) in pairs {
            t.states += 1;
            check_text(&mut t, &format!("PKGNAME={}-1\nMAINTAINER={}\nPKGNAME={}-1\nMAINTAINER={}\n", a, a, b, b));
        }
        run.bound("colliding items: 36 pairs of words colliding under common 32-bit hashes as neighbouring ALL_DEPENDS / SCAN_DEPENDS items and as the names of neighbouring records");
        run.merge(t);
    }
    // separator sweep: each ASCII white-space character that can occur inside a line (SP TAB VT
    // FF CR), singly and in pairs, between list items, around scalar values and around keys
    {
        let mut t = Tally::new();
        let ws = [' ', '\t', '\u{b}', '\u{c}', '\r'];
        let mut seps: Vec<String> = ws.iter().map(|c| c.to_string()).collect();
        for a in ws {
            for b in ws {
                seps.push(format!("{}{}", a, b));
            }
        }
        run.bound(format!("separator sweep: {} separators (SP TAB VT FF CR, singly and in pairs) x 9 line shapes", seps.len()));
        for sp in &seps {
            for line in [
                format!("MULTI_VERSION=A=1{}B=2", sp), format!("SCAN_DEPENDS=a.mk{}b.mk{}c.mk", sp, sp), format!("ALL_DEPENDS=x-[0-9]*:../../a/b{}y>=1:../../c/d", sp),
                format!("ALL_DEPENDS={}x-[0-9]*:../../a/b{}", sp, sp), format!("MAINTAINER={}m x{}", sp, sp), format!("PKG_LOCATION={}cat/pkg{}", sp, sp),
                format!("PKGNAME={}d-4{}", sp, sp), format!("{}MAINTAINER=x", sp), format!("ALL_DEPENDS=x-[0-9]*:../../a/b{}broken", sp),
            ] {
                let text = format!("PKGNAME=a-1\nCATEGORIES=c\n{}\nRESTRICTED=r\nPKGNAME=c-3\nMAINTAINER=m\n", line);
                t.states += 1;
                check_text(&mut t, &text);
            }
        }
        run.merge(t);
    }
    // very long lines: list fields and a scalar of 2^k + d bytes (k = 16..=23) must arrive whole
    {
        let ks: Vec<u32> = (16..=run.pick(23, 24) as u32).collect();
        run.bound(format!("very long lines: SCAN_DEPENDS / ALL_DEPENDS / MAINTAINER lines of 2^k + {{-1,0,1}} bytes for k = 16..={}", ks.last().unwrap()));
        par_items(&run, "C16 long lines", &ks, |_, k, t| {
            for d in [-1i64, 0, 1] {
                let target = ((1i64 << k) + d) as usize;
                // SCAN_DEPENDS: items of 11 bytes incl. separator, the last one padded to hit the length
                let mut sd = String::from("SCAN_DEPENDS=");
                let mut i = 0u64;
                while sd.len() + 24 < target {
                    sd.push_str(&format!("f{:08}.mk ", i));
                    i += 1;
                }
                while sd.len() < target {
                    sd.push('z');
                }
                let mut ad = String::from("ALL_DEPENDS=");
                let mut j = 0u64;
                while ad.len() + 48 < target {
                    ad.push_str(&format!("d{:07}-[0-9]*:../../c/d{:07} ", j, j));
                    j += 1;
                }
                let tail = format!("t>=1:../../c/{}", "t".repeat(target.saturating_sub(ad.len() + 13)));
                ad.push_str(&tail);
                let mt = format!("MAINTAINER={}", "m".repeat(target - 11));
                for line in [&sd, &ad, &mt] {
                    let text = format!("PKGNAME=a-1\n{}\nCATEGORIES=c\nPKGNAME=c-3\nMAINTAINER=m\n", line);
                    t.states += 1;
                    t.transitions += 1;
                    check_text(t, &text);
                }
            }
        });
    }
    run.finish();
}
