//! C18 - PKGNAME decomposition is lossless and consistent across the library.

use mc_core::seqs;
use mc_core::{guard, Run, Tally, Violation};
use pkgsrc::summary::Summary;
use pkgsrc::{Pattern, PkgName};
use serde_json::{json, Value};

const CH: [&str; 11] = ["-", "n", "b", "N", "0", "1", "9", ".", "a", "é", " "];

/// version = V0 + "nb" + 1..18 digits at the very end?
fn trailing_nb(version: &str) -> Option<(&str, i64)> {
    let b = version.as_bytes();
    let mut i = b.len();
    while i > 0 && b[i - 1].is_ascii_digit() {
        i -= 1;
    }
    let digits = &version[i..];
    if digits.is_empty() || digits.len() > 18 || i < 2 || &b[i - 2..i] != b"nb" {
        return None;
    }
    Some((&version[..i - 2], digits.parse().ok()?))
}

fn check(t: &mut Tally, name: &str) {
    t.evals += 1;
    t.validated += 1;
    let case = || json!({"name": name});
    let r = guard(|| {
        let n = PkgName::new(name);
        let mut s = Summary::new();
        s.set_pkgname(name);
        (
            n.pkgname().to_string(),
            n.pkgbase().to_string(),
            n.pkgversion().to_string(),
            n.pkgrevision(),
            s.pkgbase().map(|x| x.to_string()),
            s.pkgversion().map(|x| x.to_string()),
        )
    });
    let (full, base, version, rev, sbase, sversion) = match r {
        Ok(x) => x,
        Err(m) => {
            t.violation(Violation::new("name", case(), json!("returns"), json!(format!("panic: {}", m)), "PkgName panicked"));
            return;
        }
    };
    let mut bad = |what: &str, exp: Value, obs: Value| t.violation(Violation::new("name", case(), exp, obs, what));
    if full != name {
        bad("pkgname() must return the original string", json!(name), json!(full));
        return;
    }
    let (wbase, wversion) = match name.rfind('-') {
        Some(i) => (&name[..i], &name[i + 1..]),
        None => (name, ""),
    };
    if base != wbase || version != wversion {
        bad("PKGBASE is the text before the last '-', PKGVERSION the text after it (whole string / empty when there is no '-')", json!({"base": wbase, "version": wversion}), json!({"base": base, "version": version}));
        return;
    }
    if name.contains('-') && format!("{}-{}", base, version) != name {
        bad("base + '-' + version must rebuild the name", json!(name), json!(format!("{}-{}", base, version)));
        return;
    }
    // revision
    let tn = trailing_nb(wversion);
    // 'NB' / 'Nb' in the version: the comparison reads them as a revision (case-insensitively),
    // the statement speaks of 'nb' only - what PkgName reports for them is not constrained
    match (tn, wversion.to_ascii_lowercase().contains("nb")) {
        (Some((_, r)), _) => {
            if rev != Some(r) {
                bad("a version ending in nb<digits> reports that number as PKGREVISION", json!(r), json!(rev));
                return;
            }
        }
        (None, false) => {
            if rev.is_some() {
                bad("a version without 'nb' reports no PKGREVISION", json!(null), json!(rev));
                return;
            }
        }
        _ => {}
    }
    // the pkg_summary accessors give the same split for non-empty base and version
    if !wbase.is_empty() && !wversion.is_empty() && name.contains('-') {
        if sbase.as_deref() != Some(wbase) || sversion.as_deref() != Some(wversion) {
            bad("Summary::pkgbase/pkgversion must give the same split", json!({"base": wbase, "version": wversion}), json!({"base": sbase, "version": sversion}));
            return;
        }
    }
    // ... whatever the entry's other variables hold: values derived from the name itself (each
    // text in front of one of its dashes as the package directory, the category, the file name
    // stem), set before and after PKGNAME
    if !wbase.is_empty() && !wversion.is_empty() {
        let dashes: Vec<usize> = name.match_indices('-').map(|(i, _)| i).collect();
        let picked: Vec<usize> = if dashes.len() <= 6 { dashes.clone() } else { dashes[..3].iter().chain(dashes[dashes.len() - 3..].iter()).copied().collect() };
        for i in picked {
            let dir = &name[..i];
            if dir.is_empty() || dir.chars().any(|c| c.is_whitespace() || c.is_control()) {
                continue;
            }
            for first in [true, false] {
                t.evals += 1;
                t.validated += 1;
                let path = format!("cat/{}", dir);
                let got = guard(|| {
                    let mut s = Summary::new();
                    if first {
                        s.set_pkgname(name);
                    }
                    s.set_pkgpath(&path);
                    s.set_prev_pkgpath(&path);
                    s.set_categories(dir);
                    s.set_comment(dir);
                    s.set_file_name(&format!("{}.tgz", name));
                    s.set_depends(&[format!("{}>=0", dir)]);
                    s.set_provides(&[dir.to_string()]);
                    if !first {
                        s.set_pkgname(name);
                    }
                    (s.pkgbase().map(|x| x.to_string()), s.pkgversion().map(|x| x.to_string()))
                });
                match got {
                    Ok((b, v)) if b.as_deref() == Some(wbase) && v.as_deref() == Some(wversion) => {}
                    other => {
                        t.violation(Violation::new("name", json!({"name": name, "other_fields_from": dir, "pkgname_set_first": first}), json!({"base": wbase, "version": wversion}), json!(format!("{:?}", other)), "Summary::pkgbase/pkgversion must give the same split as PkgName, whatever PKGPATH and the other variables hold"));
                        return;
                    }
                }
            }
        }
    }
    // the reported revision is the one version comparison uses
    let mut tie_in = false;
    if let Some((v0, r)) = tn {
        // embeddable in a pattern: base and version free of pattern metacharacters (always true for this alphabet)
        if name.contains('-') && !wbase.is_empty() && r < i64::MAX && !name.chars().any(|ch| "{}<>*?[]".contains(ch)) && !v0.starts_with('=') {
            tie_in = true;
            let mk = |op: &str, rr: i64| format!("{}{}{}nb{}", wbase, op, v0, rr);
            let mut probes = vec![(mk(">=", r), true), (mk("<=", r), true), (mk(">", r), false), (mk("<", r + 1), true), (mk(">=", r + 1), false)];
            // the same between two bounds of the same version: only the revision leaves room
            let mk2 = |o1: &str, r1: i64, o2: &str, r2: i64| format!("{}{}{}nb{}{}{}nb{}", wbase, o1, v0, r1, o2, v0, r2);
            probes.push((mk2(">=", r, "<=", r), true));
            probes.push((mk2(">=", r, "<", r + 1), true));
            probes.push((mk2(">", r, "<=", r + 1), false));
            if r >= 1 {
                probes.push((mk2(">", r - 1, "<", r + 1), true));
                probes.push((mk2(">=", r - 1, "<=", r + 1), true));
                probes.push((mk2(">=", r - 1, "<", r), false));
            }
            for (pat, want) in probes {
                t.evals += 1;
                t.validated += 1;
                let got = guard(|| Pattern::new(&pat).map(|p| p.matches(name)).map_err(|e| e.to_string()));
                if got != Ok(Ok(want)) {
                    t.violation(Violation::new(
                        "name",
                        json!({"name": name, "pattern": pat}),
                        json!(want),
                        json!(format!("{:?}", got)),
                        "the reported PKGREVISION must be the revision the version comparison uses",
                    ));
                    return;
                }
            }
        }
    }
    let dashes = name.matches('-').count();
    if dashes >= 2 || wversion.matches("nb").count() >= 2 || wbase.contains("nb") {
        t.nontrivial += 1;
    }
    t.outcome(match (dashes, tn.is_some(), tie_in) {
        (0, _, _) => "no-dash",
        (_, true, true) => "revision/tied-to-comparison",
        (_, true, false) => "revision/reported",
        (_, false, _) => {
            if wversion.contains("nb") {
                "nb-not-trailing"
            } else {
                "no-revision"
            }
        }
    });
}

fn replay(doc: &Value) -> Option<Violation> {
    let mut t = Tally::new();
    check(&mut t, doc["case"]["name"].as_str().unwrap_or(""));
    t.violations.into_iter().next()
}

fn main() {
    let run = Run::from_args("C18");
    if let Some(doc) = run.replay_case() {
        run.finish_replay(replay(doc), replay(doc));
    }
    run.rule(
        "every string of <= L characters over '- n b N 0 1 9 . a e-acute SP' (any number of '-', empty \
         parts, 'nb' inside the base or several times in the version, upper-case N, non-ASCII), \
         plus every name base-V0nb<R> for 18-digit revisions: pkgname() is the input; base/version \
         are the parts around the last '-'; base-version rebuilds the name; a version ending in \
         nb<1..18 digits> reports that revision, a version without 'nb' reports none; \
         Summary::pkgbase/pkgversion give the same split for non-empty parts - also on an entry \
         whose PKGPATH, PREV_PKGPATH, CATEGORIES, COMMENT, FILE_NAME, DEPENDS and PROVIDES are \
         derived from the name (each text in front of one of its dashes), set before and after \
         PKGNAME; and Pattern(base >= \
         V0 nb R), (<= R) match, (> R) does not, (< R+1) does, (>= R+1) does not, and between two \
         bounds of the same version (>=R<=R), (>=R<R+1), (>R-1<R+1), (>=R-1<=R+1) match, (>R<=R+1), \
         (>=R-1<R) do not - i.e. the reported \
         revision is the one the comparison uses. Non-trivial = names with >= 2 '-', 'nb' in the \
         base, or several 'nb' in the version.",
    );
    run.assume("other shapes of 'nb' (not trailing, or without digits) are unconstrained by the statement and only checked for losslessness");

    let l = run.pick(6, 9);
    run.bound(format!("all {} strings of length <= {} over 11 characters; 18-digit revisions on 6 bases", seqs::count(CH.len(), l), l));
    seqs::par_seqs(&run, "C18", CH.len(), l, 2, |_| false, |s, t| {
        let name: String = s.iter().map(|i| CH[*i]).collect();
        check(t, &name);
        t.sample(run.seed, s.iter().fold(1u64, |a, x| a * 13 + *x as u64), || json!({"name": name}));
    });
    let mut t = Tally::new();
    for base in ["p", "p-q", "nb", "a-nb1", "é", "p-1.0nb3"] {
        for v0 in ["1.0", "", "2nb7x", "1.0NB4"] {
            for r in ["999999999999999999", "100000000000000000", "000000000000000007", "9223372036854775", "4294967295", "4294967296", "5000000000", "2147483648", "65536", "99999999999"] {
                t.states += 1;
                check(&mut t, &format!("{}-{}nb{}", base, v0, r));
            }
        }
    }
    run.merge(t);
    // scale: long names
    {
        let mut t = Tally::new();
        for n in [16usize, 17, 64, 255, 256, 1000, 70_000] {
            for unit in ["a-", "nb1-", "-", "é-", "1.0nb2-", "x"] {
                for tail in ["1.0", "1.0nb7", "nb3nb4", "", "2nb000000000000000012"] {
                    t.states += 1;
                    check(&mut t, &format!("{}{}", unit.repeat(n), tail));
                }
            }
        }
        // long versions: the text after the last '-' grows, not the base
        for n in [16usize, 17, 64, 255, 256, 1000, 70_000] {
            for unit in ["1.", "9", "nb1", "\u{e9}", "a", "_0", "nb"] {
                for tail in ["", "nb7", "nb000000000000000012", "x", "nb3nb4"] {
                    for base in ["p", "p-q"] {
                        t.states += 1;
                        check(&mut t, &format!("{}-{}{}", base, unit.repeat(n), tail));
                    }
                }
            }
        }
        run.bound("scale: names built from 16..70000 repetitions of six units followed by five version tails; versions built from 16..70000 repetitions of seven units with five tails");
        run.merge(t);
    }
    // character sweep: every ASCII (incl. NUL, LF, CR) and 64 special non-ASCII characters in seven name positions
    {
        let mut t = Tally::new();
        let mut chars = mc_core::chars::all();
        chars.extend(['\0', '\n', '\r']);
        run.bound(format!("character sweep: {} characters in seven name positions", chars.len()));
        for c in chars {
            for name in [
                format!("{}", c), format!("{}-1", c), format!("p{}-1", c), format!("p-1{}", c), format!("p-1nb2{}", c), format!("p-{}nb3", c), format!("p{}q-1nb4", c),
            ] {
                t.states += 1;
                check(&mut t, &name);
            }
        }
        run.merge(t);
    }
    run.finish();
}
