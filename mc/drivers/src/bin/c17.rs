//! C17 - no input makes a parser or matcher panic or hang.
//!
//! Process structure: the command started by `./check` is a *supervisor*; it
//! runs the exploration in a child process so that an abort (stack overflow,
//! allocation failure, a panic inside a panic) is observed as a violation with
//! the journalled work item / input instead of taking the checker down.  Inside
//! the child every call is under catch_unwind, and a watchdog thread turns a
//! call that does not return within its limit into a violation carrying the
//! hanging input.

use mc_core::par::par_items;
use mc_core::seqs;
use mc_core::{bytes_from_json, bytes_json, hex, unhex, Run, Tally, Violation};
use pkgsrc::digest::Digest;
use pkgsrc::distinfo::{Distinfo, EntryType};
use pkgsrc::pkgdb::PkgDB;
use pkgsrc::plist::{Plist, PlistEntry};
use pkgsrc::summary::{Summary, SummaryStream, SummaryVariable};
use pkgsrc::{Depend, Dewey, Metadata, MetadataEntry, Pattern, PkgName, PkgPath, ScanIndex};
use serde_json::{json, Value};
use std::ffi::OsStr;
use std::io::Write;
use std::os::unix::ffi::OsStrExt;
use std::path::Path;
use std::str::FromStr;
use std::sync::atomic::{AtomicBool, AtomicU64, AtomicUsize, Ordering};
use std::sync::{Mutex, OnceLock};
use std::time::{Duration, Instant};

// ------------------------------------------------------------------ entry points

fn fixed_patterns() -> &'static Vec<Pattern> {
    static P: OnceLock<Vec<Pattern>> = OnceLock::new();
    P.get_or_init(|| ["p>=1<9", "{a,p}-[0-9]*", "*", "p-1", "?-*[!a]"].iter().map(|s| Pattern::new(s).unwrap()).collect())
}

fn ep_pattern(b: &[u8]) {
    let Ok(s) = std::str::from_utf8(b) else { return };
    let compiled = Pattern::new(s);
    if let Err(e) = &compiled {
        let _ = e.to_string();
        if let pkgsrc::PatternError::Dewey(d) = e {
            #[allow(deprecated)]
            let _ = std::error::Error::description(d);
        }
    }
    if let Ok(p) = compiled {
        for n in ["", "p", "p-1", "p-1.0nb2", "pp-9", "a-b-c-1", "é-1"] {
            let _ = p.matches(n);
            let _ = p.best_match(n, "p-1");
        }
        let _ = p.matches(s);
        let _ = p.best_match(s, s);
        let _ = p.pattern();
    }
    // the input as a package name
    for p in fixed_patterns() {
        let _ = p.matches(s);
        let _ = p.best_match(s, "p-1.0");
        let _ = p.best_match("p-2", s);
    }
}

fn ep_dewey(b: &[u8]) {
    let Ok(s) = std::str::from_utf8(b) else { return };
    if let Ok(d) = Dewey::new(s) {
        for n in ["", "p", "p-1", "p-1.0nb2", "p-", "-", "é-1"] {
            let _ = d.matches(n);
        }
        let _ = d.matches(s);
    }
}

fn ep_pkgname(b: &[u8]) {
    let Ok(s) = std::str::from_utf8(b) else { return };
    let n = PkgName::new(s);
    let _ = (n.pkgname(), n.pkgbase(), n.pkgversion(), n.pkgrevision());
    let mut sum = Summary::new();
    sum.set_pkgname(s);
    let _ = (sum.pkgbase(), sum.pkgversion(), sum.pkgname());
}

fn ep_pkgpath(b: &[u8]) {
    let Ok(s) = std::str::from_utf8(b) else { return };
    if let Ok(p) = PkgPath::new(s) {
        let _ = (p.as_path(), p.as_full_path());
    }
    let _ = PkgPath::from_str(s);
    match Depend::new(s) {
        Ok(d) => {
            let _ = (d.pattern().pattern(), d.pkgpath().as_path());
            let _ = d.pattern().matches("p-1");
        }
        Err(e) => {
            let _ = e.to_string();
        }
    }
    let _ = Depend::from_str(s).is_ok();
}

fn ep_summary(b: &[u8]) {
    let Ok(s) = std::str::from_utf8(b) else { return };
    let parsed = Summary::from_str(s);
    if let Err(e) = &parsed {
        let _ = e.to_string();
    }
    if let Ok(sum) = parsed {
        let _ = sum.to_string();
        let _ = mc_drivers::summary_state(&sum);
        let _ = (sum.is_completed(), sum.pkgbase(), sum.pkgversion(), sum.description_as_str());
    }
    let _ = SummaryVariable::from_str(s);
}

fn ep_stream(b: &[u8]) {
    let mut st = SummaryStream::new();
    if let Err(e) = st.write(b) {
        let _ = e.to_string();
    }
    let _ = st.to_string();
    let _ = st.entries().len();
    let _ = st.entries_mut().len();
    let mut st = SummaryStream::new();
    let (c1, c2) = (b.len() / 3, 2 * b.len() / 3);
    for chunk in [&b[..c1], &b[c1..c2], &b[c2..]] {
        if st.write(chunk).is_err() {
            break;
        }
    }
    let _ = st.flush();
    let _ = st.to_string();
    // a caller that keeps writing after an error (io::copy of a later file into the same
    // collector, a retry loop): every chunking into 1..4 pieces, errors ignored, then more data
    let mut st = SummaryStream::new();
    let q = b.len() / 4;
    for chunk in [&b[..q], &b[q..2 * q], &b[2 * q..3 * q], &b[3 * q..], b"\n\n", b"PKGNAME=x-1\n\n", b"", b"\xff\n\n", b"COMMENT=c\n"] {
        let _ = st.write(chunk);
    }
    let _ = (st.entries().len(), st.to_string().len());
    // a consumer that takes the collected entries out between writes (drain, clear, truncate)
    for how in 0..3 {
        let mut st = SummaryStream::new();
        for chunk in [&b[..q], &b[q..2 * q], b"\n\n", &b[2 * q..], b"\n\n", b"PKGNAME=x-1\n\n"] {
            let _ = st.write(chunk);
            match how {
                0 => st.entries_mut().clear(),
                1 => {
                    let _ = st.entries_mut().drain(..).count();
                }
                _ => st.entries_mut().truncate(1),
            }
        }
        let _ = (st.entries().len(), st.to_string().len());
    }
    let mut st = SummaryStream::new();
    for byte in b.iter().take(48) {
        let _ = st.write(std::slice::from_ref(byte));
    }
    let _ = st.write(b"\n\n");
    let _ = st.entries().len();
}

fn ep_plist(b: &[u8]) {
    if let Ok(p) = Plist::from_bytes(b) {
        let _ = (p.pkgname(), p.display(), p.depends(), p.build_depends(), p.conflicts(), p.pkgdirs(), p.pkgrmdirs());
        let _ = (p.files(), p.files_prefixed(), p.install_cmds().len(), p.uninstall_cmds().len(), p.is_preserve());
    }
    if let Err(e) = PlistEntry::from_bytes(b) {
        let _ = e.to_string();
    }
}

fn ep_distinfo(b: &[u8]) {
    let d = Distinfo::from_bytes(b);
    let _ = d.as_bytes();
    let _ = d.rcsid();
    for e in d.distfiles().iter().chain(d.patchfiles().iter()) {
        let _ = e.as_bytes();
        let _ = d.find_entry(&e.filename);
        let _ = d.get_distfile(&e.filename);
        let _ = d.get_patchfile(&e.filename);
    }
    // the input as a lookup path, within the length a path can have (PATH_MAX)
    if b.len() <= 4096 {
        let p = Path::new(OsStr::from_bytes(b));
        let _ = d.find_entry(p);
        let _ = EntryType::from(p);
        // the path-taking verification entry points, confined below a directory that does not
        // exist (an input such as /dev/zero must not be opened)
        let rel: Vec<u8> = b.iter().copied().skip_while(|c| *c == b'/').collect();
        let q = Path::new("/nonexistent-verif-root").join(OsStr::from_bytes(&rel));
        let _ = d.verify_size(&q);
        let _ = d.verify_checksum(&q, Digest::SHA1);
        let _ = d.verify_checksums(&q);
        let _ = Distinfo::calculate_size(&q);
        let _ = Distinfo::calculate_checksum(&q, Digest::MD5);
        for e in d.distfiles().iter().chain(d.patchfiles().iter()).take(4) {
            let _ = e.verify_size(&q);
            let _ = e.verify_checksums(&q);
            let _ = e.verify_checksum(&q, Digest::RMD160);
        }
    }
}

fn ep_scanindex(b: &[u8]) {
    if let Ok(v) = ScanIndex::from_reader(b) {
        for r in &v {
            let _ = (r.pkgname.pkgbase(), r.all_depends.len(), r.scan_depends.len());
        }
    }
}

/// A reader that serves `data` and then fails on every further call (a
/// persistently failing source, e.g. a directory handle or a dead pipe).
struct ThenFail<'a> {
    data: &'a [u8],
    pos: usize,
    kind: std::io::ErrorKind,
}

impl<'a> std::io::Read for ThenFail<'a> {
    fn read(&mut self, buf: &mut [u8]) -> std::io::Result<usize> {
        if self.pos >= self.data.len() {
            return Err(std::io::Error::new(self.kind, "persistent failure"));
        }
        let n = (self.data.len() - self.pos).min(buf.len()).min(7);
        buf[..n].copy_from_slice(&self.data[self.pos..self.pos + n]);
        self.pos += n;
        Ok(n)
    }
}

fn ep_failing_readers(b: &[u8]) {
    use std::io::ErrorKind::*;
    for kind in [Other, InvalidData, UnexpectedEof, BrokenPipe] {
        // cut the input at a few places so that the failure starts mid-line too
        for cut in [0, b.len() / 2, b.len()] {
            let r = ThenFail { data: &b[..cut], pos: 0, kind };
            let _ = ScanIndex::from_reader(std::io::BufReader::with_capacity(16, r));
            let mut r = ThenFail { data: &b[..cut], pos: 0, kind };
            if let Err(e) = Digest::SHA1.hash_file(&mut r) {
                let _ = (e.to_string(), std::error::Error::source(&e).is_some());
            }
            let mut r = ThenFail { data: &b[..cut], pos: 0, kind };
            let _ = Digest::MD5.hash_patch(&mut r);
            let mut r = ThenFail { data: &b[..cut], pos: 0, kind };
            let mut st = SummaryStream::new();
            let _ = std::io::copy(&mut r, &mut st);
        }
    }
}

/// Package-database iteration, addressed by a description ("pkgdb layout mask N" / "pkgdb with N
/// stray files") so that a hang found there replays like any other call.
fn ep_pkgdb(b: &[u8]) {
    let s = String::from_utf8_lossy(b).into_owned();
    let base = std::env::var("VERIF_SCRATCH").map(std::path::PathBuf::from).unwrap_or_else(|_| std::env::temp_dir());
    let root = base.join(format!("replay-db-{}", std::process::id()));
    let _ = std::fs::remove_dir_all(&root);
    if let Some(mask) = s.strip_prefix("pkgdb layout mask ").and_then(|m| m.trim().parse::<u32>().ok()) {
        if build_db(&root, mask).is_err() {
            mc_core::run::machinery_fault("cannot build the scratch package database");
        }
        open_and_walk(&root);
        let _ = std::fs::remove_dir_all(root.with_extension("linked-target"));
    } else if s.starts_with("pkgdb removed") {
        vanish_once(&root, s.contains("replaced"));
    } else if let Some(n) = s.strip_prefix("pkgdb with ").and_then(|m| m.split(' ').next()).and_then(|m| m.parse::<usize>().ok()) {
        if std::fs::create_dir_all(root.join("pkg-1.0")).is_ok() {
            for f in ["+COMMENT", "+CONTENTS", "+DESC"] {
                let _ = std::fs::write(root.join("pkg-1.0").join(f), b"x\n");
            }
            for i in 0..n {
                let _ = std::fs::File::create(root.join(format!("stray{}", i)));
            }
            let _ = PkgDB::open(&root).map(|db| db.count());
        }
    }
    let _ = std::fs::remove_dir_all(&root);
    let _ = std::fs::remove_dir_all(root.with_extension("linked-target"));
}

fn ep_digest_name(b: &[u8]) {
    let Ok(s) = std::str::from_utf8(b) else { return };
    match Digest::from_str(s) {
        Ok(d) => {
            let _ = d.to_string();
            let _ = d.hash_str(s);
        }
        Err(e) => {
            let _ = (e.to_string(), e == e, std::error::Error::source(&e).is_some());
        }
    }
}

fn meta_entry(i: usize) -> MetadataEntry {
    match i {
        0 => MetadataEntry::BuildInfo,
        1 => MetadataEntry::BuildVersion,
        2 => MetadataEntry::Comment,
        3 => MetadataEntry::Contents,
        4 => MetadataEntry::DeInstall,
        5 => MetadataEntry::Desc,
        6 => MetadataEntry::Display,
        7 => MetadataEntry::Install,
        8 => MetadataEntry::InstalledInfo,
        9 => MetadataEntry::MtreeDirs,
        10 => MetadataEntry::Preserve,
        11 => MetadataEntry::RequiredBy,
        12 => MetadataEntry::SizeAll,
        _ => MetadataEntry::SizePkg,
    }
}

fn ep_metadata(b: &[u8]) {
    let Ok(s) = std::str::from_utf8(b) else { return };
    let mut m = Metadata::new();
    for i in 0..14 {
        let _ = m.read_metadata(meta_entry(i), s);
    }
    let _ = m.is_valid();
    let _ = (m.comment(), m.contents(), m.desc(), m.size_all(), m.size_pkg());
    let _ = (m.build_info(), m.build_version(), m.deinstall(), m.display(), m.install());
    let _ = (m.installed_info(), m.mtree_dirs(), m.preserve(), m.required_by());
    let _ = MetadataEntry::from_filename(s);
}

type Ep = fn(&[u8]);
const EPS: [(&str, Ep); 13] = [
    ("pattern", ep_pattern),
    ("dewey", ep_dewey),
    ("pkgname", ep_pkgname),
    ("pkgpath+depend", ep_pkgpath),
    ("summary", ep_summary),
    ("summary-stream", ep_stream),
    ("plist", ep_plist),
    ("distinfo", ep_distinfo),
    ("scanindex", ep_scanindex),
    ("digest-name", ep_digest_name),
    ("metadata", ep_metadata),
    ("failing-readers", ep_failing_readers),
    ("pkgdb", ep_pkgdb),
];

fn ep_index(name: &str) -> usize {
    EPS.iter().position(|(n, _)| *n == name).unwrap_or(0)
}

// ------------------------------------------------------------------ slots and watchdog

struct Slot {
    busy: AtomicBool,
    seq: AtomicU64,
    ep: AtomicUsize,
    limit_ms: AtomicU64,
    /// kernel thread id of the worker using this slot (for its CPU clock)
    tid: AtomicU64,
    started: Mutex<Option<Instant>>,
    input: Mutex<Vec<u8>>,
}

const NSLOTS: usize = 4096;

fn slots() -> &'static Vec<Slot> {
    static S: OnceLock<Vec<Slot>> = OnceLock::new();
    S.get_or_init(|| {
        (0..NSLOTS)
            .map(|_| Slot {
                busy: AtomicBool::new(false),
                seq: AtomicU64::new(0),
                ep: AtomicUsize::new(0),
                limit_ms: AtomicU64::new(2000),
                tid: AtomicU64::new(0),
                started: Mutex::new(None),
                input: Mutex::new(Vec::new()),
            })
            .collect()
    })
}

thread_local! {
    static MY_SLOT: usize = {
        static NEXT: AtomicUsize = AtomicUsize::new(0);
        let i = NEXT.fetch_add(1, Ordering::SeqCst) % NSLOTS;
        slots()[i].tid.store(my_tid(), Ordering::SeqCst);
        i
    };
}

/// Kernel thread id of the calling thread (0 if /proc is not available).
fn my_tid() -> u64 {
    std::fs::read_link("/proc/thread-self")
        .ok()
        .and_then(|p| p.file_name().and_then(|n| n.to_str()).and_then(|n| n.parse().ok()))
        .unwrap_or(0)
}

/// (CPU milliseconds consumed so far, scheduler state) of a thread or process, from its
/// /proc stat file.  Time limits are judged on CPU time consumed by the call, so that a loaded
/// machine (other checks running in parallel) cannot turn a slow call into a reported hang.
fn proc_cpu(path: &str) -> Option<(u64, char)> {
    let s = std::fs::read_to_string(path).ok()?;
    let rest = &s[s.rfind(')')? + 1..];
    let f: Vec<&str> = rest.split_whitespace().collect();
    let state = f.first()?.chars().next()?;
    let ut: u64 = f.get(11)?.parse().ok()?;
    let st: u64 = f.get(12)?.parse().ok()?;
    Some(((ut + st) * 10, state))
}

static JOURNAL_INPUTS: AtomicBool = AtomicBool::new(false);
static JOURNAL: OnceLock<Mutex<std::fs::File>> = OnceLock::new();

fn journal(line: &str) {
    if let Some(j) = JOURNAL.get() {
        let _ = j.lock().unwrap().write_all(line.as_bytes());
    }
}

/// Run `f` under the watchdog (CPU-time limit `limit_ms`), reporting a description as its input.
fn watched<T>(what: &str, limit_ms: u64, f: impl FnOnce() -> T) -> Result<T, String> {
    let slot = &slots()[MY_SLOT.with(|s| *s)];
    {
        let mut b = slot.input.lock().unwrap();
        b.clear();
        b.extend_from_slice(what.as_bytes());
    }
    slot.ep.store(ep_index("pkgdb"), Ordering::Relaxed);
    slot.limit_ms.store(limit_ms, Ordering::Relaxed);
    *slot.started.lock().unwrap() = Some(Instant::now());
    slot.seq.fetch_add(1, Ordering::SeqCst);
    slot.busy.store(true, Ordering::SeqCst);
    let r = mc_core::guard(f);
    slot.busy.store(false, Ordering::SeqCst);
    r
}

/// One guarded, watched call of an entry point.
fn call(t: &mut Tally, ep: usize, input: &[u8], limit_ms: u64) {
    t.evals += 1;
    t.validated += 1;
    if JOURNAL_INPUTS.load(Ordering::Relaxed) {
        journal(&format!("I {} {}\n", ep, hex(input)));
    }
    let slot = &slots()[MY_SLOT.with(|s| *s)];
    {
        let mut b = slot.input.lock().unwrap();
        b.clear();
        b.extend_from_slice(input);
    }
    slot.ep.store(ep, Ordering::Relaxed);
    slot.limit_ms.store(limit_ms, Ordering::Relaxed);
    *slot.started.lock().unwrap() = Some(Instant::now());
    slot.seq.fetch_add(1, Ordering::SeqCst);
    slot.busy.store(true, Ordering::SeqCst);
    let r = mc_core::guard(|| (EPS[ep].1)(input));
    slot.busy.store(false, Ordering::SeqCst);
    if let Err(m) = r {
        t.violation(Violation::new(
            "call",
            json!({"entry": EPS[ep].0, "input": input_json(input)}),
            json!("returns normally"),
            json!(format!("panic: {}", m)),
            "an entry point panicked on external input",
        ));
        t.outcome("panic");
    }
}

fn input_json(input: &[u8]) -> Value {
    if input.len() <= 600 {
        bytes_json(input)
    } else {
        json!({"hex": hex(input), "len": input.len(), "head": String::from_utf8_lossy(&input[..80])})
    }
}

fn start_watchdog(run: &'static Run) {
    struct Seen {
        seq: u64,
        cpu0: u64,
        last_cpu: u64,
        first: Instant,
        idle_polls: u64,
    }
    const POLL_MS: u64 = 200;
    std::thread::spawn(move || {
        let mut seen: Vec<Option<Seen>> = (0..NSLOTS).map(|_| None).collect();
        loop {
            std::thread::sleep(Duration::from_millis(POLL_MS));
            for (i, s) in slots().iter().enumerate() {
                if !s.busy.load(Ordering::SeqCst) {
                    seen[i] = None;
                    continue;
                }
                let seq = s.seq.load(Ordering::SeqCst);
                let tid = s.tid.load(Ordering::SeqCst);
                let now = if tid != 0 { proc_cpu(&format!("/proc/self/task/{}/stat", tid)) } else { None };
                let fresh = !matches!(&seen[i], Some(e) if e.seq == seq);
                if fresh {
                    let c = now.map(|x| x.0).unwrap_or(0);
                    seen[i] = Some(Seen { seq, cpu0: c, last_cpu: c, first: Instant::now(), idle_polls: 0 });
                    continue;
                }
                let e = seen[i].as_mut().unwrap();
                let limit = s.limit_ms.load(Ordering::Relaxed);
                let verdict: Option<String> = match now {
                    Some((cpu, state)) => {
                        let used = cpu.saturating_sub(e.cpu0);
                        if state != 'R' && cpu == e.last_cpu {
                            e.idle_polls += 1;
                        } else {
                            e.idle_polls = 0;
                        }
                        e.last_cpu = cpu;
                        if used >= limit {
                            Some(format!("still running after consuming {} ms of CPU time ({} ms elapsed)", used, e.first.elapsed().as_millis()))
                        } else if e.idle_polls * POLL_MS >= limit.max(5000) {
                            Some(format!("blocked (not runnable, no CPU progress) for {} ms", e.idle_polls * POLL_MS))
                        } else {
                            None
                        }
                    }
                    // no per-thread clock: wall time with a wide margin
                    None => {
                        let el = e.first.elapsed().as_millis() as u64;
                        if el > limit * 20 { Some(format!("still running after {} ms (no CPU clock available)", el)) } else { None }
                    }
                };
                if let Some(obs) = verdict {
                    if s.busy.load(Ordering::SeqCst) && s.seq.load(Ordering::SeqCst) == seq {
                        let input = s.input.lock().unwrap().clone();
                        let ep = s.ep.load(Ordering::Relaxed);
                        let mut t = Tally::new();
                        t.states += 1;
                        t.evals += 1;
                        t.transitions += 1;
                        t.outcome("hang");
                        t.violation(Violation::new(
                            "call",
                            json!({"entry": EPS[ep].0, "input": input_json(&input), "limit_ms": limit}),
                            json!(format!("returns within {} ms of CPU time", limit)),
                            json!(obs),
                            "an entry point did not return promptly",
                        ));
                        run.merge(t);
                        run.finish();
                    }
                }
            }
        }
    });
}

// ------------------------------------------------------------------ families

struct Family {
    name: &'static str,
    eps: Vec<usize>,
    alphabet: Vec<Vec<u8>>,
    quick: usize,
    thorough: usize,
}

fn toks(v: &[&str]) -> Vec<Vec<u8>> {
    v.iter().map(|s| s.as_bytes().to_vec()).collect()
}

fn families() -> Vec<Family> {
    let mut f = vec![];
    f.push(Family {
        name: "pattern characters",
        eps: vec![ep_index("pattern"), ep_index("dewey"), ep_index("pkgname")],
        alphabet: toks(&["p", "-", "1", "9", "<", ">", "=", "{", "}", ",", "*", "?", "[", "]", "é", "n", "b"]),
        quick: 5,
        thorough: 6,
    });
    f.push(Family {
        name: "pattern tokens",
        eps: vec![ep_index("pattern"), ep_index("dewey"), ep_index("pkgname"), ep_index("pkgpath+depend")],
        alphabet: toks(&["p", "-", ">=", "<", "1.0", "nb", "alpha", "99999999999999999999", "{", "}", ",", "[0-9]*", "[", ":", "../../c/p", "\u{1F600}"]),
        quick: 4,
        thorough: 5,
    });
    f.push(Family {
        name: "paths and dependencies",
        eps: vec![ep_index("pkgpath+depend"), ep_index("distinfo")],
        alphabet: toks(&["a", "/", ".", "..", ":", "-", ">", "1", "*", "{", "é", "\0"]),
        quick: 5,
        thorough: 6,
    });
    f.push(Family {
        name: "summary tokens",
        eps: vec![ep_index("summary"), ep_index("summary-stream")],
        alphabet: toks(&["PKGNAME", "SIZE_PKG", "FILE_SIZE", "DESCRIPTION", "=", "\n", "\n\n", "1", "-", "9999999999999999999", "é", " "]),
        quick: 5,
        thorough: 6,
    });
    {
        let mut every: Vec<Vec<u8>> = mc_core::chars::all().into_iter().map(|c| c.to_string().into_bytes()).collect();
        every.extend([vec![0u8], vec![b'\n'], vec![b'\r'], vec![0xff], vec![0xc3], vec![0x85], vec![0xa0]]);
        f.push(Family { name: "every character, pairs", eps: (0..11).collect(), alphabet: every, quick: 2, thorough: 2 });
    }
    let mut plist_bytes = toks(&["a", "@", " ", "\t", "\n"]);
    plist_bytes.push(vec![0xe9]);
    plist_bytes.push(vec![0xff]);
    f.push(Family { name: "plist bytes", eps: vec![ep_index("plist")], alphabet: plist_bytes, quick: 6, thorough: 7 });
    let mut plist_tok = toks(&["@cwd", "@name", "@option", "@ignore", "@comment", "@mode", " ", "\n", "x", "preserve", "@"]);
    plist_tok.push(vec![0xff]);
    f.push(Family { name: "plist tokens", eps: vec![ep_index("plist")], alphabet: plist_tok, quick: 5, thorough: 6 });
    let mut di = toks(&["SHA1", "Size", "(", ")", "f", " ", "=", "1", "bytes", "\n", "$NetBSD: ", "#", "99999999999999999999", "\t"]);
    di.push(vec![0xff]);
    di.push(vec![0xa0]);
    f.push(Family { name: "distinfo tokens", eps: vec![ep_index("distinfo")], alphabet: di, quick: 5, thorough: 6 });
    let mut si = toks(&["PKGNAME=", "ALL_DEPENDS=", "PKG_LOCATION=", "a-1", ":", "../../c/p", " ", "\n", "=", "p>=1", "99999999999999999999"]);
    si.push(vec![0xff]);
    f.push(Family { name: "pbulk-index tokens", eps: vec![ep_index("scanindex")], alphabet: si.clone(), quick: 5, thorough: 6 });
    f.push(Family { name: "pbulk-index tokens through persistently failing readers", eps: vec![ep_index("failing-readers")], alphabet: si, quick: 3, thorough: 4 });
    f.push(Family {
        name: "digest names and metadata",
        eps: vec![ep_index("digest-name"), ep_index("metadata")],
        alphabet: toks(&["s", "h", "a", "1", "S", "5", "İ", "+", "-", "x", "\n", " ", "9223372036854775808", "+SIZE_PKG"]),
        quick: 4,
        thorough: 5,
    });
    f
}

struct Seed {
    name: &'static str,
    eps: Vec<usize>,
    doc: Vec<u8>,
}

fn seeds() -> Vec<Seed> {
    let mut v = vec![];
    let summary = include_str!("../../seeds/summary.seed");
    v.push(Seed { name: "full summary entry", eps: vec![ep_index("summary"), ep_index("summary-stream")], doc: summary.as_bytes().to_vec() });
    let mut stream = String::new();
    for i in 0..3 {
        stream.push_str(&summary.replace("mktool-1.3.2nb2", &format!("mktool{}-1.{}é", i, i)));
        stream.push('\n');
    }
    v.push(Seed { name: "three-entry summary stream", eps: vec![ep_index("summary-stream")], doc: stream.into_bytes() });
    v.push(Seed { name: "packing list", eps: vec![ep_index("plist")], doc: include_bytes!("../../seeds/plist.seed").to_vec() });
    v.push(Seed { name: "distinfo fixture 1", eps: vec![ep_index("distinfo")], doc: include_bytes!("../../seeds/distinfo.1").to_vec() });
    v.push(Seed { name: "distinfo fixture 2", eps: vec![ep_index("distinfo")], doc: include_bytes!("../../seeds/distinfo.2").to_vec() });
    v.push(Seed { name: "distinfo fixture 3", eps: vec![ep_index("distinfo")], doc: include_bytes!("../../seeds/distinfo.3").to_vec() });
    v.push(Seed { name: "pbulk-index, three records", eps: vec![ep_index("scanindex")], doc: include_bytes!("../../seeds/pbulk.seed").to_vec() });
    v.push(Seed { name: "pbulk-index, one record, through failing readers", eps: vec![ep_index("failing-readers")], doc: include_str!("../../seeds/pbulk.seed").lines().take(6).map(|l| format!("{}\n", l)).collect::<String>().into_bytes() });
    v
}

fn short_seeds() -> Vec<(Vec<usize>, Vec<u8>)> {
    // dependency / pattern / package-name lines from the repository's fixtures, one per shape
    let mut v = vec![];
    for l in include_str!("../../seeds/patterns.txt").lines() {
        v.push((vec![ep_index("pattern"), ep_index("dewey")], l.as_bytes().to_vec()));
        v.push((vec![ep_index("pkgpath+depend")], format!("{}:../../cat/pkg", l).into_bytes()));
    }
    for l in include_str!("../../seeds/pkgnames.txt").lines() {
        v.push((vec![ep_index("pkgname"), ep_index("pattern")], l.as_bytes().to_vec()));
    }
    v
}

const PALETTE: [u8; 12] = [0x00, 0x0a, 0x20, 0x3d, 0x2d, 0x39, 0x7b, 0x7d, 0x3c, 0x40, 0xc3, 0xff];

/// Every mutation of `doc` in the families of the rule text; `splice_step`
/// thins the two-cut splices for long documents (1 = every pair of cuts).
fn mutate(doc: &[u8], splice_step: usize, f: &mut dyn FnMut(&[u8])) {
    let n = doc.len();
    for i in 0..=n {
        f(&doc[..i]);
    }
    let mut buf = Vec::with_capacity(n + 1);
    for i in 0..n {
        buf.clear();
        buf.extend_from_slice(&doc[..i]);
        buf.extend_from_slice(&doc[i + 1..]);
        f(&buf);
        for p in PALETTE {
            if doc[i] != p {
                buf.clear();
                buf.extend_from_slice(doc);
                buf[i] = p;
                f(&buf);
            }
        }
    }
    // line duplication
    let mut start = 0;
    for i in 0..n {
        if doc[i] == b'\n' || i + 1 == n {
            let line = &doc[start..=i];
            buf.clear();
            buf.extend_from_slice(&doc[..=i]);
            buf.extend_from_slice(line);
            buf.extend_from_slice(&doc[i + 1..]);
            f(&buf);
            start = i + 1;
        }
    }
    // two-cut splices
    let mut i = 0;
    while i <= n {
        let mut j = i + 1;
        while j <= n {
            buf.clear();
            buf.extend_from_slice(&doc[..i]);
            buf.extend_from_slice(&doc[j..]);
            f(&buf);
            j += splice_step;
        }
        i += splice_step;
    }
}

/// Digit runs replaced by 19-, 20- and 40-digit runs.
fn huge_numbers(doc: &[u8]) -> Vec<Vec<u8>> {
    let mut out = vec![];
    let mut i = 0;
    while i < doc.len() {
        if doc[i].is_ascii_digit() {
            let mut j = i;
            while j < doc.len() && doc[j].is_ascii_digit() {
                j += 1;
            }
            for big in ["9223372036854775808", "99999999999999999999", "1234567890123456789012345678901234567890"] {
                let mut d = doc[..i].to_vec();
                d.extend_from_slice(big.as_bytes());
                d.extend_from_slice(&doc[j..]);
                out.push(d);
            }
            i = j;
        } else {
            i += 1;
        }
    }
    out
}

/// (entry point, input) pairs whose inputs are very long.
fn heavy_inputs(reps: usize) -> Vec<(usize, Vec<u8>)> {
    let mut v: Vec<(usize, Vec<u8>)> = vec![];
    let rep = |s: &str| s.repeat(reps).into_bytes();
    let wrap = |pre: &str, s: &str, post: &str| [pre.as_bytes(), &s.repeat(reps).into_bytes()[..], post.as_bytes()].concat();
    for ep in ["pattern", "dewey", "pkgname"] {
        let e = ep_index(ep);
        for tok in ["1.", "nb", "alpha", "-", "a", "9", "é", "_", "nb9", ">", "<=", "[", "]", "?", "=", " "] {
            v.push((e, wrap("p>=", tok, "")));
            v.push((e, wrap("p-", tok, "")));
        }
        v.push((e, wrap("{", ",", "}-1")));
        // deeply nested groups: the expansion is tiny (one string / depth+1 strings), so nothing
        // about the notation makes these expensive
        for depth in [64usize, 1000, 5000] {
            v.push((e, format!("{}a{}-1", "{".repeat(depth), "}".repeat(depth)).into_bytes()));
        }
        for depth in [24usize, 40, 200] {
            v.push((e, format!("p{}a{}-1", "{b,".repeat(depth), "}".repeat(depth)).into_bytes()));
        }
        v.push((e, wrap("p-[", "a", "]*")));
    }
    let e = ep_index("pkgpath+depend");
    for tok in ["a/", "../", "./", "/", ":", "a", "é"] {
        v.push((e, rep(tok)));
        v.push((e, wrap("p>=1:", tok, "")));
    }
    for (ep, toks) in [
        ("summary", vec!["DESCRIPTION=x\n", "DEPENDS=\n", "=", "\n", "PKGNAME=a-1\n", "x"]),
        ("summary-stream", vec!["DESCRIPTION=x\n", "\n", "\n\n", "x", "é", "=\n\n"]),
        ("plist", vec!["f\n", "@comment x\n", "@ignore\n", " ", "\n", "@cwd /a\n", "@", "a"]),
        ("distinfo", vec!["SHA1 (f) = h\n", "Size (f) = 1 bytes\n", "SHA1 (", " ", "\n", "(", "#\n", "SHA1 (f) = h "]),
        ("scanindex", vec!["PKGNAME=a-1\n", "MAINTAINER=m\n", "x\n", "\n", "ALL_DEPENDS=p>=1:../../c/p ", "="]),
        ("digest-name", vec!["sha1", "S"]),
        ("metadata", vec!["1", "line\n", " ", "-"]),
    ] {
        for t in toks {
            v.push((ep_index(ep), rep(t)));
        }
    }
    // multi-byte straddles: for every byte offset up to the string's length some member has a
    // multi-byte character across it, so any byte-indexed cut, excerpt or buffer boundary inside
    // these inputs lands inside a character for one of them
    for bytes in if reps > 50_000 { vec![200usize, 70_000, 300_000] } else { vec![200usize, 70_000] } {
        for sv in mc_core::chars::straddles(bytes) {
            let shapes: Vec<(&str, Vec<String>)> = vec![
                ("pattern", vec![format!("p-{}", sv), format!("p>={}", sv), format!("{}-1.0", sv), sv.clone(), format!("p-[{}]*", sv), format!("{{a,{}}}-1", sv), format!("{}>=1<2", sv)]),
                ("dewey", vec![format!("p-{}", sv), format!("p>={}", sv), format!("1.{}", sv)]),
                ("pkgname", vec![format!("p-{}", sv), format!("{}-1.0nb1", sv), sv.clone()]),
                ("pkgpath+depend", vec![sv.clone(), format!("cat/{}", sv), format!("{}/pkg", sv), format!("../../cat/{}", sv), format!("p>=1:../../cat/{}", sv), format!("{}:../../cat/p", sv)]),
                ("summary", vec![sv.clone(), format!("{}=x", sv), format!("COMMENT={}", sv), format!("FILE_SIZE={}", sv), format!("PKGNAME=a-1\n{}\nCOMMENT=c", sv), format!("=={}", sv)]),
                ("summary-stream", vec![format!("{}\n\n", sv), format!("COMMENT={}\n\n", sv), format!("{}=x\n\n", sv), sv.clone()]),
                ("plist", vec![sv.clone(), format!("@{}", sv), format!("@cwd {}", sv), format!("@name {}", sv), format!("@mode {}", sv), format!("@comment{} x", sv), format!("bin/x\n@pkgdep {}\n", sv)]),
                ("distinfo", vec![format!("SHA1 ({}) = h\n", sv), format!("{} (f) = h\n", sv), format!("SHA1 (f) = {}\n", sv), format!("Size (f) = {} bytes\n", sv), sv.clone(), format!("$NetBSD: {} $\n", sv)]),
                ("scanindex", vec![format!("PKGNAME={}\n", sv), format!("{}=x\n", sv), format!("PKGNAME=a-1\nALL_DEPENDS={}\n", sv), format!("PKGNAME=a-1\nPKG_LOCATION={}\n", sv), format!("PKGNAME=a-1\nMULTI_VERSION={}\n", sv), sv.clone()]),
                ("digest-name", vec![sv.clone()]),
                ("metadata", vec![sv.clone(), format!("1{}", sv)]),
            ];
            // the failing readers hand out 7 bytes per call and the stream buffer revalidates what
            // it holds on every write: quadratic in the harness, so short inputs only
            let shapes: Vec<(&str, Vec<String>)> = if bytes <= 200 { shapes.into_iter().chain([("failing-readers", vec![sv.clone(), format!("PKGNAME={}\n", sv)])]).collect() } else { shapes };
            for (ep, texts) in shapes {
                for x in texts {
                    v.push((ep_index(ep), x.into_bytes()));
                }
            }
        }
    }
    // a long complete stream: many entries
    let entry = include_str!("../../seeds/summary.seed");
    v.push((ep_index("summary-stream"), format!("{}\n", entry).repeat(reps / 50).into_bytes()));
    v.push((ep_index("scanindex"), include_str!("../../seeds/pbulk.seed").repeat(reps / 50).into_bytes()));
    v.push((ep_index("plist"), include_str!("../../seeds/plist.seed").repeat(reps / 20).into_bytes()));
    v.push((ep_index("distinfo"), include_str!("../../seeds/distinfo.1").repeat(reps / 20).into_bytes()));
    v
}

// ------------------------------------------------------------------ pkgdb trees

const DB_SHAPES: [&[u8]; 15] = [
    b"foo", b"-1", b"a-", b"-", b"a-b-1.0nb2", b"x\xff-1", b"plainfile-1", b"broken-1", b"half-1", b"dangling-1", b"loop-1", b"linked-1", b"fifo-1", b"selfloop-1", b"notdir-1",
];

fn build_db(root: &Path, mask: u32) -> std::io::Result<()> {
    std::fs::create_dir_all(root)?;
    for (i, name) in DB_SHAPES.iter().enumerate() {
        if mask >> i & 1 == 0 {
            continue;
        }
        let p = root.join(OsStr::from_bytes(name));
        match *name {
            b"dangling-1" => std::os::unix::fs::symlink("does-not-exist", &p)?,
            b"loop-1" => std::os::unix::fs::symlink("loop-1", &p)?,
            b"linked-1" => {
                // a symbolic link to a complete package directory kept outside the database
                let target = root.with_extension("linked-target");
                std::fs::create_dir_all(&target)?;
                for f in ["+COMMENT", "+CONTENTS", "+DESC"] {
                    std::fs::write(target.join(f), b"x\n")?;
                }
                std::os::unix::fs::symlink(&target, &p)?;
            }
            b"fifo-1" => {
                // mandatory entries that exist but are named pipes without a writer: opening one
                // for reading blocks for ever, and the directory may or may not count as a package
                std::fs::create_dir_all(&p)?;
                std::fs::write(p.join("+COMMENT"), b"c\n")?;
                std::fs::write(p.join("+CONTENTS"), b"bin/x\n")?;
                mc_drivers::mkfifo(&p.join("+DESC"))?;
            }
            b"selfloop-1" => {
                // a mandatory entry that cannot be examined: a symbolic link to itself (ELOOP)
                std::fs::create_dir_all(&p)?;
                std::fs::write(p.join("+COMMENT"), b"c\n")?;
                std::fs::write(p.join("+CONTENTS"), b"bin/x\n")?;
                std::os::unix::fs::symlink("+DESC", p.join("+DESC"))?;
            }
            b"notdir-1" => {
                // ... and one whose target path runs through a regular file (ENOTDIR)
                std::fs::create_dir_all(&p)?;
                std::fs::write(p.join("+COMMENT"), b"c\n")?;
                std::os::unix::fs::symlink("+COMMENT/x", p.join("+CONTENTS"))?;
                std::fs::write(p.join("+DESC"), b"d\n")?;
            }
            b"plainfile-1" => std::fs::write(&p, b"not a directory")?,
            b"broken-1" => {
                // mandatory entries exist but are directories / not UTF-8
                std::fs::create_dir_all(p.join("+COMMENT"))?;
                std::fs::write(p.join("+CONTENTS"), b"\xff\xfe")?;
                std::fs::write(p.join("+DESC"), b"")?;
            }
            b"half-1" => {
                std::fs::create_dir_all(&p)?;
                std::fs::write(p.join("+COMMENT"), b"c")?;
            }
            _ => {
                std::fs::create_dir_all(&p)?;
                std::fs::write(p.join("+COMMENT"), b"comment\n")?;
                std::fs::write(p.join("+CONTENTS"), b"@name x-1\nbin/x\n")?;
                std::fs::write(p.join("+DESC"), b"desc\n")?;
                std::fs::write(p.join("+SIZE_PKG"), if i % 2 == 0 { b"12\n".as_slice() } else { b"twelve".as_slice() })?;
                std::fs::write(p.join("+SIZE_ALL"), b"99999999999999999999")?;
                std::fs::write(p.join("+BUILD_INFO"), b"A=1\nB=2\n")?;
            }
        }
    }
    Ok(())
}

fn walk_db(root: &Path) {
    if let Ok(db) = PkgDB::open(root) {
        for pkg in db {
            let Ok(pkg) = pkg else { continue };
            let _ = (pkg.pkgname().len(), pkg.pkgbase().len(), pkg.pkgversion().len());
            if pkg.pkgname() == "fifo-1" {
                // iteration must not block on the pipe; *reading* a pipe nobody writes to blocks
                // by definition and is not asked for
                continue;
            }
            let mut m = Metadata::new();
            for i in 0..14 {
                if let Ok(content) = pkg.read_metadata(meta_entry(i)) {
                    let _ = m.read_metadata(meta_entry(i), &content);
                }
            }
            let _ = m.is_valid();
        }
    }
}

/// A database holding `n` stray plain files and one package: skipping entries must not cost stack.
fn check_db_many_strays(t: &mut Tally, scratch: &Path, n: usize) {
    t.evals += 1;
    t.validated += 1;
    t.states += 1;
    let root = scratch.join(format!("strays{}", n));
    let _ = std::fs::remove_dir_all(&root);
    if std::fs::create_dir_all(root.join("pkg-1.0")).is_err() {
        mc_core::run::machinery_fault("cannot build the scratch package database");
    }
    let built = (|| -> std::io::Result<()> {
        for f in ["+COMMENT", "+CONTENTS", "+DESC"] {
            std::fs::write(root.join("pkg-1.0").join(f), b"x\n")?;
        }
        for i in 0..n {
            std::fs::File::create(root.join(format!("stray{}", i)))?;
        }
        Ok(())
    })();
    if built.is_err() {
        let _ = std::fs::remove_dir_all(&root);
        mc_core::run::machinery_fault("cannot build the scratch package database");
    }
    journal(&format!("I {} {}\n", ep_index("pkgdb"), hex(format!("pkgdb with {} stray files", n).as_bytes())));
    let r = watched(&format!("pkgdb with {} stray files", n), 10_000, || PkgDB::open(&root).map(|db| db.count()).unwrap_or(0));
    let _ = std::fs::remove_dir_all(&root);
    match r {
        Ok(1) => t.outcome("pkgdb/many-strays-ok"),
        Ok(k) => t.violation(Violation::new("pkgdb-strays", json!({"stray_files": n}), json!(1), json!(k), "package database iteration lost or invented packages among many stray files")),
        Err(m) => t.violation(Violation::new("pkgdb-strays", json!({"stray_files": n}), json!("returns normally"), json!(format!("panic: {}", m)), "package database iteration panicked")),
    }
}

/// What one layout is put through (the exploration and the replay of a recorded layout alike).
fn open_and_walk(root: &Path) {
    walk_db(root);
    // a database path that is a plain file, and one that does not exist
    let _ = PkgDB::open(&root.join("plainfile-1")).map(|db| db.count());
    let _ = PkgDB::open(&root.join("does-not-exist")).map(|db| db.count());
}

/// Build a one-package database at `gone`, open it, take it away (or replace it by a plain file)
/// and poll the handle a bounded number of times.
fn vanish_once(gone: &Path, replace: bool) {
    let _ = std::fs::remove_dir_all(gone);
    let _ = std::fs::remove_file(gone);
    let built = (|| -> std::io::Result<()> {
        std::fs::create_dir_all(gone.join("pkg-1.0"))?;
        for f in ["+COMMENT", "+CONTENTS", "+DESC"] {
            std::fs::write(gone.join("pkg-1.0").join(f), b"x\n")?;
        }
        Ok(())
    })();
    if built.is_err() {
        mc_core::run::machinery_fault("cannot build the scratch package database");
    }
    if let Ok(db) = PkgDB::open(gone) {
        let _ = std::fs::remove_dir_all(gone);
        if replace {
            let _ = std::fs::write(gone, b"now a file");
        }
        // a handle that keeps reporting errors is fine; it is polled a bounded number of times
        let _ = db.take(64).count();
    }
    let _ = std::fs::remove_dir_all(gone);
    let _ = std::fs::remove_file(gone);
}

/// The database goes away, or turns into a plain file, between open() and the iteration: whatever
/// the handle does then (ends, or reports errors), it does so without panicking and every poll
/// returns promptly.
fn check_db_vanishing(t: &mut Tally, scratch: &Path) {
    for replace in [false, true] {
        t.evals += 1;
        t.validated += 1;
        t.states += 1;
        t.transitions += 2;
        let gone = scratch.join(if replace { "vanish-replaced" } else { "vanish-removed" });
        let what = format!("pkgdb removed{} between open and iteration", if replace { " and replaced by a plain file" } else { "" });
        journal(&format!("I {} {}\n", ep_index("pkgdb"), hex(what.as_bytes())));
        let r = watched(&what, 2000, || vanish_once(&gone, replace));
        match r {
            Ok(()) => t.outcome("pkgdb/vanishing-ok"),
            Err(m) => t.violation(Violation::new("pkgdb-vanishing", json!({"replaced_by_a_file": replace}), json!("returns normally"), json!(format!("panic: {}", m)), "iterating a package database that went away after open() panicked")),
        }
    }
}

fn check_db(t: &mut Tally, scratch: &Path, mask: u32) {
    t.evals += 1;
    t.validated += 1;
    let root = scratch.join(format!("db{}", mask));
    let _ = std::fs::remove_dir_all(&root);
    if build_db(&root, mask).is_err() {
        mc_core::run::machinery_fault("cannot build the scratch package database");
    }
    journal(&format!("I {} {}\n", ep_index("pkgdb"), hex(format!("pkgdb layout mask {}", mask).as_bytes())));
    let r = watched(&format!("pkgdb layout mask {}", mask), 2000, || open_and_walk(&root));
    let _ = std::fs::remove_dir_all(&root);
    let _ = std::fs::remove_dir_all(root.with_extension("linked-target"));
    match r {
        Ok(()) => t.outcome("pkgdb/ok"),
        Err(m) => t.violation(Violation::new(
            "pkgdb",
            json!({"layout_mask": mask, "shapes": DB_SHAPES.iter().enumerate().filter(|(i, _)| mask >> i & 1 == 1).map(|(_, n)| String::from_utf8_lossy(n).into_owned()).collect::<Vec<_>>()}),
            json!("returns normally"),
            json!(format!("panic: {}", m)),
            "package database iteration panicked",
        )),
    }
}

// ------------------------------------------------------------------ work items

enum Item {
    Seqs { fam: usize, prefix: Vec<usize>, whole: bool },
    Mutate { seed: usize },
    Short { lo: usize, hi: usize },
    Huge { seed: usize },
    Heavy { idx: usize },
    Pkgdb { lo: u32, hi: u32 },
    PkgdbStrays { n: usize },
}

struct Plan {
    fams: Vec<Family>,
    seeds: Vec<Seed>,
    shorts: Vec<(Vec<usize>, Vec<u8>)>,
    heavy: Vec<(usize, Vec<u8>)>,
    items: Vec<Item>,
    thorough: bool,
}

fn plan(thorough: bool) -> Plan {
    let fams = families();
    let seeds = seeds();
    let shorts = short_seeds();
    let heavy = heavy_inputs(if thorough { 100_000 } else { 20_000 });
    let mut items = vec![];
    let mut seq_items = vec![];
    for (fi, f) in fams.iter().enumerate() {
        let max = if thorough { f.thorough } else { f.quick };
        let split = 2.min(max);
        let k = f.alphabet.len();
        let mut pre = vec![];
        let mut collect = |s: &[usize]| seq_items.push(Item::Seqs { fam: fi, prefix: s.to_vec(), whole: s.len() == split });
        seqs::dfs(k, split, &mut pre, &|_| false, &mut collect);
    }
    // the small, structurally different families first: if the wall-clock budget is ever reached
    // (slow machine), what is cut is the tail of the big enumerations, never a whole family
    for si in 0..seeds.len() {
        items.push(Item::Mutate { seed: si });
        items.push(Item::Huge { seed: si });
    }
    let chunk = 20;
    let mut lo = 0;
    while lo < shorts.len() {
        items.push(Item::Short { lo, hi: (lo + chunk).min(shorts.len()) });
        lo += chunk;
    }
    for idx in 0..heavy.len() {
        items.push(Item::Heavy { idx });
    }
    let mut m = 0u32;
    // every subset of the nine plain shapes, and every combination of the three symbolic-link
    // shapes with every eighth subset of the plain ones
    while m < 512 {
        items.push(Item::Pkgdb { lo: m, hi: m + 32 });
        m += 32;
    }
    for links in 1u32..8 {
        items.push(Item::Pkgdb { lo: links << 9, hi: (links << 9) + 512 });
    }
    // the named-pipe shape with every combination of the link shapes and every eighth plain subset
    for links in 0u32..8 {
        items.push(Item::Pkgdb { lo: (1 << 12) | (links << 9), hi: ((1 << 12) | (links << 9)) + 512 });
    }
    // the two unexaminable-entry shapes likewise
    for extra in [1u32 << 13, 1 << 14, 3 << 13] {
        for links in 0u32..8 {
            items.push(Item::Pkgdb { lo: extra | (links << 9), hi: (extra | (links << 9)) + 512 });
        }
    }
    for n in if thorough { vec![4_000usize, 30_000, 200_000] } else { vec![4_000usize, 30_000] } {
        items.push(Item::PkgdbStrays { n });
    }
    items.extend(seq_items);
    Plan { fams, seeds, shorts, heavy, items, thorough }
}

fn run_item(p: &Plan, idx: usize, t: &mut Tally, scratch: &Path) {
    match &p.items[idx] {
        Item::Seqs { fam, prefix, whole } => {
            let f = &p.fams[*fam];
            let max = if p.thorough { f.thorough } else { f.quick };
            let mut buf: Vec<u8> = vec![];
            let mut visit = |s: &[usize]| {
                buf.clear();
                for i in s {
                    buf.extend_from_slice(&f.alphabet[*i]);
                }
                t.states += 1;
                t.transitions += 1;
                for ep in &f.eps {
                    call(t, *ep, &buf, 2000);
                }
                if !s.is_empty() && s.iter().any(|i| f.alphabet[*i].iter().any(|b| *b >= 0x80 || *b == 0)) {
                    t.nontrivial += 1;
                }
            };
            if *whole {
                let mut pre = prefix.clone();
                seqs::dfs(f.alphabet.len(), max, &mut pre, &|_| false, &mut visit);
            } else {
                visit(prefix);
            }
            t.outcome_n("short-string families/items", 1);
        }
        Item::Mutate { seed } => {
            let s = &p.seeds[*seed];
            let step = if p.thorough { if s.doc.len() > 1200 { 3 } else { 1 } } else if s.doc.len() > 500 { 7 } else { 2 };
            let eps = s.eps.clone();
            mutate(&s.doc, step, &mut |d: &[u8]| {
                t.states += 1;
                t.transitions += 1;
                t.nontrivial += 1;
                for ep in &eps {
                    call(t, *ep, d, 2000);
                }
            });
            t.outcome_n("seed-mutation families/seeds", 1);
        }
        Item::Short { lo, hi } => {
            for (eps, doc) in &p.shorts[*lo..*hi] {
                let eps = eps.clone();
                mutate(doc, 1, &mut |d: &[u8]| {
                    t.states += 1;
                    t.transitions += 1;
                    t.nontrivial += 1;
                    for ep in &eps {
                        call(t, *ep, d, 2000);
                    }
                });
                for d in huge_numbers(doc) {
                    t.states += 1;
                    t.nontrivial += 1;
                    for ep in &eps {
                        call(t, *ep, &d, 2000);
                    }
                }
            }
            t.outcome_n("fixture-line families/chunks", 1);
        }
        Item::Huge { seed } => {
            let s = &p.seeds[*seed];
            for d in huge_numbers(&s.doc) {
                t.states += 1;
                t.transitions += 1;
                t.nontrivial += 1;
                for ep in &s.eps {
                    call(t, *ep, &d, 2000);
                }
            }
            t.outcome_n("huge-number families/seeds", 1);
        }
        Item::Heavy { idx } => {
            let (ep, input) = &p.heavy[*idx];
            t.states += 1;
            t.transitions += 1;
            t.nontrivial += 1;
            journal(&format!("I {} {}\n", ep, hex(&input[..input.len().min(64)])));
            call(t, *ep, input, 10_000);
            t.outcome_n("long-input families/inputs", 1);
        }
        Item::PkgdbStrays { n } => {
            t.transitions += *n as u64;
            t.nontrivial += 1;
            if *n == 4_000 {
                check_db_vanishing(t, scratch);
            }
            check_db_many_strays(t, scratch, *n);
        }
        Item::Pkgdb { lo, hi } => {
            // without a link shape every subset of the plain shapes; with link shapes every eighth
            for m in (*lo..*hi).filter(|m| (m >> 9) & 7 == 0 || m % 8 == (m >> 9) % 8) {
                t.states += 1;
                t.transitions += 1;
                check_db(t, scratch, m);
            }
        }
    }
}

// ------------------------------------------------------------------ roles

fn child_main(run: &'static Run, only_item: Option<usize>) -> ! {
    let p = plan(run.thorough());
    let scratch = run.scratch_dir();
    if let Ok(path) = std::env::var("VERIF_C17_JOURNAL") {
        if let Ok(f) = std::fs::OpenOptions::new().create(true).append(true).open(path) {
            let _ = JOURNAL.set(Mutex::new(f));
        }
    }
    start_watchdog(run);
    match only_item {
        Some(i) => {
            JOURNAL_INPUTS.store(true, Ordering::SeqCst);
            let mut t = Tally::new();
            if i < p.items.len() {
                // on a thread with the default (2 MiB) stack, like the workers of the full run
                std::thread::scope(|sc| {
                    sc.spawn(|| {
                        journal(&format!("S {}\n", i));
                        run_item(&p, i, &mut t, &scratch);
                        journal(&format!("D {}\n", i));
                    });
                });
            }
            t.outcome("single-item");
            t.outcome("rerun");
            run.merge(t);
        }
        None => {
            let idx: Vec<usize> = (0..p.items.len()).collect();
            let timing = std::env::var("VERIF_C17_TIMING").is_ok();
            par_items(run, "C17 work items", &idx, |_, i, t| {
                journal(&format!("S {}\n", i));
                let t0 = Instant::now();
                run_item(&p, *i, t, &scratch);
                if timing && t0.elapsed() > Duration::from_millis(500) {
                    eprintln!("item {} took {:?}", i, t0.elapsed());
                }
                journal(&format!("D {}\n", i));
                t.sample(run.seed, *i as u64, || match &p.items[*i] {
                    Item::Seqs { fam, prefix, .. } => json!({"family": p.fams[*fam].name, "subtree_prefix": prefix.iter().map(|x| String::from_utf8_lossy(&p.fams[*fam].alphabet[*x]).into_owned()).collect::<Vec<_>>()}),
                    Item::Mutate { seed } => json!({"mutations_of": p.seeds[*seed].name}),
                    Item::Huge { seed } => json!({"huge_numbers_in": p.seeds[*seed].name}),
                    Item::Short { lo, hi } => json!({"fixture_lines": [lo, hi]}),
                    Item::Heavy { idx } => json!({"long_input_for": EPS[p.heavy[*idx].0].0, "len": p.heavy[*idx].1.len()}),
                    Item::Pkgdb { lo, hi } => json!({"pkgdb_layout_masks": [lo, hi]}),
                    Item::PkgdbStrays { n } => json!({"pkgdb_with_stray_files": n}),
                });
            });
        }
    }
    run.finish();
}

fn spawn_child(role: &str, journal: &Path, timeout: Duration) -> Result<Option<i32>, String> {
    let exe = std::env::current_exe().map_err(|e| e.to_string())?;
    let args: Vec<String> = std::env::args().skip(1).collect();
    let mut child = std::process::Command::new(exe)
        .args(&args)
        .env("VERIF_C17_ROLE", role)
        .env("VERIF_C17_JOURNAL", journal)
        .env("VERIF_SCRATCH", journal.parent().unwrap().join("children"))
        .envs(if role.starts_with("item:") { vec![("VERIF_OUT", journal.parent().unwrap().to_path_buf())] } else { vec![] })
        .stdout(if role.starts_with("item:") { std::process::Stdio::null() } else { std::process::Stdio::inherit() })
        .spawn()
        .map_err(|e| e.to_string())?;
    let start = Instant::now();
    loop {
        match child.try_wait() {
            Ok(Some(st)) => return Ok(st.code()),
            Ok(None) => {
                if start.elapsed() > timeout {
                    let _ = child.kill();
                    let _ = child.wait();
                    return Err("timeout".into());
                }
                std::thread::sleep(Duration::from_millis(50));
            }
            Err(e) => return Err(e.to_string()),
        }
    }
}

fn open_items(journal: &Path) -> (Vec<usize>, Option<(usize, Vec<u8>)>) {
    let txt = std::fs::read_to_string(journal).unwrap_or_default();
    let mut open: Vec<usize> = vec![];
    let mut last_input = None;
    for l in txt.lines() {
        let mut it = l.split(' ');
        match (it.next(), it.next(), it.next()) {
            (Some("S"), Some(n), _) => {
                if let Ok(n) = n.parse() {
                    open.push(n)
                }
            }
            (Some("D"), Some(n), _) => {
                if let Ok(n) = n.parse::<usize>() {
                    open.retain(|x| *x != n)
                }
            }
            (Some("I"), Some(ep), Some(h)) => last_input = Some((ep.parse().unwrap_or(0), unhex(h))),
            _ => {}
        }
    }
    (open, last_input)
}

fn supervisor_main(run: &'static Run) -> ! {
    let scratch = run.scratch_dir();
    let journal = scratch.join("journal.txt");
    let _ = std::fs::remove_file(&journal);
    let budget = Duration::from_secs(if run.thorough() { 3000 } else { 300 });
    match spawn_child("child", &journal, budget) {
        Ok(Some(code)) if code == 0 || code == 1 || code == 2 => {
            let _ = std::fs::remove_dir_all(&scratch);
            std::process::exit(code);
        }
        Err(e) if e == "timeout" => run.fault("exploration child exceeded its overall time limit (per-call hangs are reported by its watchdog; this is a machinery fault)"),
        Err(e) => run.fault(&format!("cannot run the exploration child: {}", e)),
        Ok(code) => {
            // abnormal termination: find the work item, then the input
            let (open, _) = open_items(&journal);
            let mut t = Tally::new();
            t.states += 1;
            t.evals += 1;
            t.transitions += 1;
            t.outcome("abort");
            let mut reported = false;
            for item in open.iter().take(32) {
                let j2 = scratch.join(format!("journal-item-{}.txt", item));
                let _ = std::fs::remove_file(&j2);
                let r = spawn_child(&format!("item:{}", item), &j2, Duration::from_secs(600));
                if !matches!(r, Ok(Some(0)) | Ok(Some(1))) {
                    let (_, last) = open_items(&j2);
                    let (ep, input) = last.unwrap_or((0, vec![]));
                    t.violation(Violation::new(
                        "abort",
                        json!({"entry": EPS[ep.min(EPS.len() - 1)].0, "input": input_json(&input), "work_item": item}),
                        json!("returns normally"),
                        json!(format!("process terminated abnormally ({:?}) while running this input", r)),
                        "an entry point aborted the process (stack overflow, allocation failure or double panic)",
                    ));
                    reported = true;
                    break;
                }
            }
            if !reported {
                // an abort that no in-flight item reproduces alone is not a verdict about the library
                // (out-of-memory kill, signal from outside): machinery fault, exit 2
                run.fault(&format!("exploration child terminated abnormally (status {:?}) and none of the {} in-flight work items reproduces it alone", code, open.len()));
            }
            run.merge(t);
            run.finish();
        }
    }
}

/// Replay: one call in a fresh process with a hard time limit.
fn replay_main(run: &'static Run, doc: &Value) -> ! {
    let c = &doc["case"];
    if doc["kind"] == "pkgdb" {
        let mut t = Tally::new();
        let scratch = run.scratch_dir();
        check_db(&mut t, &scratch, c["layout_mask"].as_u64().unwrap_or(0) as u32);
        let v = t.violations.into_iter().next();
        let mut t2 = Tally::new();
        check_db(&mut t2, &scratch, c["layout_mask"].as_u64().unwrap_or(0) as u32);
        let _ = std::fs::remove_dir_all(&scratch);
        run.finish_replay(v, t2.violations.into_iter().next());
    }
    if doc["kind"] == "pkgdb-vanishing" {
        let scratch = run.scratch_dir();
        let mut t = Tally::new();
        check_db_vanishing(&mut t, &scratch);
        let mut t2 = Tally::new();
        check_db_vanishing(&mut t2, &scratch);
        let _ = std::fs::remove_dir_all(&scratch);
        run.finish_replay(t.violations.into_iter().next(), t2.violations.into_iter().next());
    }
    if doc["kind"] == "pkgdb-strays" {
        let n = c["stray_files"].as_u64().unwrap_or(4000) as usize;
        let scratch = run.scratch_dir();
        let mut t = Tally::new();
        check_db_many_strays(&mut t, &scratch, n);
        let mut t2 = Tally::new();
        check_db_many_strays(&mut t2, &scratch, n);
        let _ = std::fs::remove_dir_all(&scratch);
        run.finish_replay(t.violations.into_iter().next(), t2.violations.into_iter().next());
    }
    // the CPU-time limit the exploration applied to this call (2 s, 10 s for the long inputs)
    let limit = c["limit_ms"].as_u64().unwrap_or(10_000);
    let once = || -> Option<Violation> {
        let exe = std::env::current_exe().ok()?;
        let scratch = run.scratch_dir();
        let f = scratch.join("one-input.json");
        std::fs::write(&f, c.to_string()).ok()?;
        let mut child = std::process::Command::new(exe).env("VERIF_C17_ROLE", format!("one:{}", f.display())).env("VERIF_SCRATCH", &scratch).spawn().ok()?;
        let start = Instant::now();
        let status = loop {
            match child.try_wait() {
                Ok(Some(st)) => break Some(st),
                Ok(None)
                    if proc_cpu(&format!("/proc/{}/stat", child.id())).map(|(cpu, _)| cpu > limit + 500).unwrap_or(false)
                        || start.elapsed() > Duration::from_secs(300) =>
                {
                    let _ = child.kill();
                    let _ = child.wait();
                    break None;
                }
                Ok(None) => std::thread::sleep(Duration::from_millis(20)),
                Err(_) => break None,
            }
        };
        match status {
            Some(st) if st.code() == Some(0) => None,
            Some(st) => Some(Violation::new("call", c.clone(), json!("returns normally"), json!(format!("{}", if st.code() == Some(3) { "panic".to_string() } else { format!("abnormal exit {:?}", st.code()) })), "")),
            None => Some(Violation::new("call", c.clone(), json!("returns promptly"), json!(format!("no return within {} ms of CPU time", limit)), "")),
        }
    };
    let (a, b) = (once(), once());
    let _ = std::fs::remove_dir_all(run.scratch_dir());
    run.finish_replay(a, b);
}

fn one_main(path: &str) -> ! {
    let txt = std::fs::read_to_string(path).unwrap_or_default();
    let c: Value = serde_json::from_str(&txt).unwrap_or(Value::Null);
    let ep = ep_index(c["entry"].as_str().unwrap_or("pattern"));
    let input = bytes_from_json(&c["input"]);
    std::panic::set_hook(Box::new(|_| {}));
    // on a thread with the default 2 MiB stack, like the exploration's workers
    let r = std::thread::Builder::new().stack_size(2 << 20).spawn(move || mc_core::guard(|| (EPS[ep].1)(&input))).map(|h| h.join());
    match r {
        Ok(Ok(Ok(()))) => std::process::exit(0),
        _ => std::process::exit(3),
    }
}

fn main() {
    let role = std::env::var("VERIF_C17_ROLE").unwrap_or_default();
    if let Some(p) = role.strip_prefix("one:") {
        one_main(p);
    }
    let run: &'static Run = Box::leak(Box::new(Run::from_args("C17")));
    if let Some(doc) = run.replay_case() {
        let doc = doc.clone();
        replay_main(run, &doc);
    }
    run.rule(
        "per entry point (pattern compile/match/best-match, Dewey, PkgName + Summary accessors, \
         PkgPath + Depend, Summary::from_str + SummaryVariable, SummaryStream write in 1 and 3 \
         chunks, Plist + all views + PlistEntry, Distinfo parse/write/lookup + EntryType, \
         ScanIndex, Digest names, Metadata for all 14 entries, PkgDB over directory trees, and the \
         reader-taking entry points (ScanIndex::from_reader, hash_file, hash_patch, io::copy into a \
         SummaryStream) over readers that fail persistently after serving a prefix): \
         (i) every string of <= k symbols over its own character / token alphabets; (ii) for each \
         seed document (full summary entry, 3-entry stream, packing list, the three fixture \
         distinfo files, a 3-record pbulk-index file, 150 dependency patterns and 150 package \
         names, one per shape, from the repository's fixtures) every prefix, every single-byte \
         deletion, every substitution from a 12-byte palette, every line duplication and every \
         two-cut splice; (iii) every digit run replaced by 19/20/40-digit runs and every token \
         repeated 10^5 times (2*10^4 in the quick tier); (iv) 4 800 package-database layouts \
         over 15 directory shapes (all 512 subsets of the nine plain shapes, and each combination of the three link shapes with 64 of them; the same again with a named pipe, with a mandatory entry that is a symbolic link to itself, with one whose target runs through a regular file, and with both), and databases holding 4 000 / 30 000 (thorough: 200 000) stray files next to one package. Every call under catch_unwind with a watchdog (2 s, 10 s for \
         the long inputs), in a child process so that aborts are observed. Non-trivial = inputs \
         that are mutations, long, or contain NUL / bytes >= 0x80. Summary call sequences are \
         covered by C07's graph (every accessor in every reached state).",
    );
    run.assume("patterns with more than a handful of brace groups or '*' are not generated at length 10^5 (expansion / back-tracking cost is inherent to the notation)");
    run.assume("lookup paths handed to Distinfo::find_entry / EntryType::from are at most PATH_MAX (4096) bytes long");
    run.assume("'promptly' is checked as: every explored call returns within 2 s (10 s for inputs of 10^4..10^6 bytes)");
    run.bound("all bounds are listed in the rule text; k per family: 4-6 symbols (quick) / 5-7 (thorough)");
    if role == "child" {
        child_main(run, None);
    }
    if let Some(n) = role.strip_prefix("item:") {
        child_main(run, n.parse().ok());
    }
    supervisor_main(run);
}
