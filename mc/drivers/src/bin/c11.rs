//! C11 - each recognised distinfo line lands on its file; other lines change
//! nothing; no line is dropped because of the bytes in its file name.

use mc_core::model::distinfo::{self as md, File, Model};
use mc_core::par::par_items;
use mc_core::seqs;
use mc_core::{bytes_from_json, bytes_json, guard, Run, Tally, Violation};
use pkgsrc::distinfo::{Distinfo, Entry, EntryType};
use serde_json::{json, Value};
use std::ffi::OsStr;
use std::os::unix::ffi::OsStrExt;

fn entry_model(e: &Entry) -> File {
    File {
        name: e.filename.as_os_str().as_bytes().to_vec(),
        checksums: e.checksums.iter().map(|c| (c.digest.to_string(), c.hash.clone())).collect(),
        size: e.size,
    }
}

fn distinfo_model(d: &Distinfo) -> Model {
    Model {
        rcsid: d.rcsid().map(|r| r.as_bytes().to_vec()),
        distfiles: d.distfiles().iter().map(|e| entry_model(e)).collect(),
        patchfiles: d.patchfiles().iter().map(|e| entry_model(e)).collect(),
    }
}

const FINDING: &str = "distinfo-names-path-equality";

fn check_text(t: &mut Tally, text: &[u8]) -> bool {
    t.evals += 1;
    t.validated += 1;
    // the statement is about files, checksums and sizes; the RCS Id line is C10's
    let strip = |mut m: Model| {
        m.rcsid = None;
        m
    };
    let want = strip(md::parse(text));
    let case = || json!({"text": bytes_json(text)});
    match guard(|| {
        let d = Distinfo::from_bytes(text);
        let m = strip(distinfo_model(&d));
        // the typed lookups must agree with the lists
        let mut lookups_ok = true;
        for f in &m.distfiles {
            lookups_ok &= d.get_distfile(OsStr::from_bytes(&f.name)).map(entry_model).as_ref() == Some(f);
        }
        for f in &m.patchfiles {
            lookups_ok &= d.get_patchfile(OsStr::from_bytes(&f.name)).map(entry_model).as_ref() == Some(f);
        }
        (m, lookups_ok)
    }) {
        Ok((got, lookups_ok)) => {
            if got != want && got == strip(md::parse_with(text, md::NameEq::PathComponents)) && RUN_FINDING_OPEN.load(std::sync::atomic::Ordering::Relaxed) {
                t.known(FINDING, case);
                false
            } else if got != want {
                t.violation(Violation::new("text", case(), json!(format!("{:?}", want)), json!(format!("{:?}", got)), "recorded files/checksums/sizes differ from: every recognised line under exactly its name, first-appearance order, checksums in line order, patches apart"));
                false
            } else if !lookups_ok {
                t.violation(Violation::new("text", case(), json!("get_distfile/get_patchfile find every listed entry"), json!("lookup differs"), "typed lookup disagrees with the entry lists"));
                false
            } else {
                true
            }
        }
        Err(m) => {
            t.violation(Violation::new("text", case(), json!("returns"), json!(format!("panic: {}", m)), "distinfo parser panicked"));
            false
        }
    }
}

fn alphabet() -> Vec<Vec<u8>> {
    let mut v: Vec<Vec<u8>> = vec![];
    for (k, n) in ["f.tgz", "d/f.tgz", "patch-aa"].iter().enumerate() {
        v.push(format!("SHA1 ({}) = a{}", n, k).into_bytes());
        v.push(format!("RMD160 ({}) = b{}", n, k).into_bytes());
        v.push(format!("Size ({}) = 7 bytes", n).into_bytes());
    }
    v.push(b"  SHA512 \t(f.tgz)  =\t c0  ".to_vec());
    v.push(b"# SHA1 (f.tgz) = commented".to_vec());
    v.push(b"".to_vec());
    v.push(b"   ".to_vec());
    v.push(b"FOO (f.tgz) = x".to_vec());
    v.push(b"Size (f.tgz) = many bytes".to_vec());
    v.push(b"garbage line here".to_vec());
    v.push(b"$NetBSD: distinfo,v 1.1 $".to_vec());
    v
}

static RUN_FINDING_OPEN: std::sync::atomic::AtomicBool = std::sync::atomic::AtomicBool::new(false);

/// Lines added to the alphabet for a second, shallower enumeration: hash words that are not
/// lower-case hex, truncated and malformed relatives of recognised lines, unparsable sizes,
/// near-miss algorithm names, names that are equal as paths but not as bytes.
fn extra_lines() -> Vec<Vec<u8>> {
    let mut v: Vec<Vec<u8>> = vec![];
    for l in [
        "SHA1 (f.tgz) = ABCdef", "SHA256 (f.tgz) = Zz+/=", "MD5 (d/f.tgz) = 0X1F",
        "SHA1", "MD5 (f.tgz)", "SHA1 (f.tgz) =", "Size (f.tgz) =", "Size (f.tgz)", "SHA1 f.tgz = x", "Size", "SHA1 (f.tgz) x ab", "Size (f.tgz) : 7 bytes", "SHA1 (f.tgz = x", "SHA1 f.tgz) = x", "SHA1 ( f.tgz ) = x",
        "Size (f.tgz) = -1 bytes", "Size (f.tgz) = 7x bytes", "Size (f.tgz) = 0x10 bytes", "Size (f.tgz) = 1e3 bytes", "Size (f.tgz) = \u{663} bytes", "Size (f.tgz) = 18446744073709551616 bytes", "Size (f.tgz) = 7.0 bytes",
        "SHA-1 (f.tgz) = x", "SHA1x (f.tgz) = x", "SHA3 (f.tgz) = x", "XSHA1 (f.tgz) = x", "SIZE (f.tgz) = 7 bytes", "Sizes (f.tgz) = 7 bytes",
        "SHA1 (d//f.tgz) = c3", "Size (d/./f.tgz) = 9 bytes", "SHA1 (f.tgz/) = c4", "SHA1 (./f.tgz) = c5",
        "Size (f.tgz) = 000000000000000000007 bytes", "Size (d/f.tgz) = 0000000000000000000000000000000000000042 bytes", "Size (f.tgz) = 00018446744073709551615 bytes", "Size (f.tgz) = 18446744073709551615 bytes",
    ] {
        v.push(l.as_bytes().to_vec());
    }
    v.push(format!("SHA512 (f.tgz) = {}", "A1b2".repeat(50)).into_bytes());
    v.push(b"\xa0SHA1 (f.tgz) = hi".to_vec());
    v.push(b"SHA1\xa0(f.tgz) = hi".to_vec());
    v.push(b"SHA1 (f.tgz)\x85= hi".to_vec());
    v
}

const CLASS_TOK: [&[u8]; 13] = [b"patch-", b"emul-", b"-patch-", b"local-", b"x", b"foo.", b".orig", b".rej", b"~", b".tar.", b"d/", b"\xe9", b"\xc3\xa0"];

fn check_class(t: &mut Tally, name: &[u8]) {
    if name.is_empty() || name.ends_with(b"/") {
        return;
    }
    let want = md::classify(name);
    if want == md::Class::Ambiguous {
        t.outcome("class/undecided-by-the-statement");
        return;
    }
    t.evals += 1;
    t.validated += 1;
    let got = guard(|| EntryType::from(OsStr::from_bytes(name)) == EntryType::Patchfile);
    let want_patch = want == md::Class::Patch;
    match got {
        Ok(g) if g == want_patch => t.outcome(if g { "class/patch" } else { "class/distfile" }),
        Ok(g) => t.violation(Violation::new("class", json!({"name": bytes_json(name)}), json!({"patch": want_patch}), json!({"patch": g}), "classification differs from: patch-* and emul-*-patch-*, except patch-local-*, *.orig, *.rej, *~ and names containing .tar. (file-name part only)")),
        Err(m) => t.violation(Violation::new("class", json!({"name": bytes_json(name)}), json!({"patch": want_patch}), json!(format!("panic: {}", m)), "classifier panicked")),
    }
}

fn replay(doc: &Value) -> Option<Violation> {
    let mut t = Tally::new();
    match doc["kind"].as_str() {
        Some("class") => check_class(&mut t, &bytes_from_json(&doc["case"]["name"])),
        _ => {
            check_text(&mut t, &bytes_from_json(&doc["case"]["text"]));
        }
    }
    t.violations.into_iter().next()
}

fn main() {
    let run = Run::from_args("C11");
    RUN_FINDING_OPEN.store(run.finding_open(FINDING), std::sync::atomic::Ordering::Relaxed);
    if let Some(doc) = run.replay_case() {
        run.finish_replay(replay(doc), replay(doc));
    }
    run.rule(
        "(a) every sequence of <= N lines over a 17-line alphabet: SHA1/RMD160/Size lines for a \
         distfile, a DIST_SUBDIR distfile and a patch, one line with doubled blanks/tabs and \
         leading/trailing blanks, and 7 noise lines (comment, empty, blanks, unknown algorithm, \
         unparsable size, garbage, RCS Id); (b) for every byte 0x01-0xFF except ASCII whitespace \
         and '/', names b, xb, bx, xbx, and every valid 2-byte UTF-8 sequence ending in 0x85 or \
         0xA0, in a checksum line and a size line between two ordinary lines; (c) every name of \
         <= 4 tokens over 11 classifier-relevant tokens. Oracle: reference line classifier and \
         grouper. Non-trivial = texts mentioning at least two distinct files, byte-sweep names \
         containing a byte >= 0x80, classifier names containing 'patch-'.",
    );
    run.assume("one Size line per name in the deep enumeration; 'emul-patch-*' (the only '-patch-' sharing its '-' with 'emul-') is undecided by the statement and skipped");
    run.assume("reference classifier/grouper: mc/core/src/model/distinfo.rs");

    // (a)
    let alpha = alphabet();
    let n = run.pick(5, 7);
    run.bound(format!("(a) all {} sequences of <= {} lines over {} lines", seqs::count(alpha.len(), n), n, alpha.len()));
    seqs::par_seqs(&run, "C11(a)", alpha.len(), n, 2, |_| false, |s, t| {
        let mut text = vec![];
        let mut names = std::collections::BTreeSet::new();
        for i in s {
            text.extend_from_slice(&alpha[*i]);
            text.push(b'\n');
            if *i < 9 {
                names.insert(*i / 3);
            }
        }
        if check_text(t, &text) {
            if names.len() >= 2 {
                t.nontrivial += 1;
            }
            t.outcome(match names.len() {
                0 => "text/no-recognised-file",
                1 => "text/one-file",
                _ => "text/several-files-interleaved",
            });
        }
        if s.len() <= 3 && !text.is_empty() {
            // the same text without its final newline
            check_text(t, &text[..text.len() - 1]);
        }
        t.sample(run.seed, s.iter().fold(1u64, |a, x| a * 23 + *x as u64), || json!({"text": bytes_json(&text)}));
    });

    // (a2) the base alphabet plus the extra lines, shallower
    {
        let mut alpha2 = alphabet();
        alpha2.extend(extra_lines());
        let n2 = run.pick(3, 4);
        run.bound(format!("(a2) all {} sequences of <= {} lines over {} lines (base alphabet + non-hex hash words, truncated / malformed relatives of recognised lines, unparsable sizes, near-miss algorithm names, names equal as paths only)", seqs::count(alpha2.len(), n2), n2, alpha2.len()));
        seqs::par_seqs(&run, "C11(a2)", alpha2.len(), n2, 2, |_| false, |s, t| {
            let mut text = vec![];
            for i in s {
                text.extend_from_slice(&alpha2[*i]);
                text.push(b'\n');
            }
            if check_text(t, &text) {
                t.outcome("text/extended-alphabet");
                t.nontrivial += 1;
            }
            if s.len() <= 2 && !text.is_empty() {
                check_text(t, &text[..text.len() - 1]);
            }
        });
    }

    // scale: long texts interleaving many files (first-appearance order and per-file
    // line order must survive any amount of interleaving)
    {
        let mut t = Tally::new();
        for nfiles in [5usize, 16, 17, 40, 129] {
            for stride in [1usize, 3, 7] {
                let mut text = vec![];
                for round in 0..6 {
                    for k in 0..nfiles {
                        let f = (k * stride + round) % nfiles;
                        let name = if f % 4 == 1 { format!("patch-f{}", f) } else { format!("sub{}/f{}.tgz", f % 3, f) };
                        let line = match round {
                            5 if f % 4 != 1 => format!("Size ({}) = {} bytes", name, 1u64 << (f % 64)),
                            _ => format!("{} ({}) = {:x}", mc_core::model::distinfo::ALGOS[(round + f) % 6], name, f * 1000 + round),
                        };
                        text.extend_from_slice(line.as_bytes());
                        text.push(b'\n');
                        if (f + round) % 11 == 0 {
                            text.extend_from_slice(b"# noise\n\nFOO (x) = y\n");
                        }
                    }
                }
                t.states += 1;
                t.transitions += 1;
                if check_text(&mut t, &text) {
                    t.nontrivial += 1;
                    t.outcome("text/several-files-interleaved");
                }
            }
        }
        run.bound("scale: 15 texts interleaving 5..129 files over 6 rounds with 3 strides, noise lines in between");
        run.merge(t);
    }

    // (b)
    let mut names: Vec<Vec<u8>> = vec![];
    for b in 0u16..=255 {
        let b = b as u8;
        if b == b' ' || (0x09..=0x0d).contains(&b) || b == b'/' {
            continue;
        }
        names.push(vec![b]);
        names.push(vec![b'x', b]);
        names.push(vec![b, b'x']);
        names.push(vec![b'x', b, b'x']);
    }
    for lead in 0xc2u8..=0xdf {
        for tail in [0x85u8, 0xa0] {
            names.push(vec![lead, tail]);
            names.push(vec![b'n', lead, tail, b'.', b't']);
        }
    }
    run.bound(format!("(b) {} swept names x (checksum line, size line, both) between two neighbour lines", names.len()));
    par_items(&run, "C11(b)", &names, |_, name, t| {
        t.states += 1;
        let ck = [b"SHA256 (".as_slice(), name, b") = 0123abcd"].concat();
        let sz = [b"Size (".as_slice(), name, b") = 42 bytes"].concat();
        let before = b"SHA1 (neighbour-one.tgz) = 11\n".to_vec();
        let after = b"\nSize (neighbour-two.tgz) = 2 bytes\nSHA1 (patch-neighbour) = 33\n".to_vec();
        // the swept bytes also in front of the line and in place of a field separator: the line
        // is then not a recognised one (its first field is no algorithm name), or - for an ASCII
        // blank - still is; the model decides, the neighbours must be untouched either way
        let lead = [name.as_slice(), b"SHA256 (lead.tgz) = 0123abcd"].concat();
        let mid = [b"SHA256".as_slice(), name, b"(mid.tgz) = 0123abcd"].concat();
        for body in [ck.clone(), sz.clone(), [ck.clone(), b"\n".to_vec(), sz.clone()].concat(), [b" \t".to_vec(), ck.clone()].concat(), lead, mid] {
            let text = [before.clone(), body, after.clone()].concat();
            t.transitions += 1;
            if check_text(t, &text) {
                if name.iter().any(|b| *b >= 0x80) {
                    t.nontrivial += 1;
                    t.outcome("name-bytes/high");
                } else {
                    t.outcome("name-bytes/ascii");
                }
            }
        }
    });

    // (c)
    let m = run.pick(4, 5);
    run.bound(format!("(c) all {} names of <= {} tokens over {:?}", seqs::count(CLASS_TOK.len(), m), m, CLASS_TOK.iter().map(|t| String::from_utf8_lossy(t).into_owned()).collect::<Vec<_>>()));
    seqs::par_seqs(&run, "C11(c)", CLASS_TOK.len(), m, 2, |_| false, |s, t| {
        let name: Vec<u8> = s.iter().flat_map(|i| CLASS_TOK[*i].iter().copied()).collect();
        if name.windows(6).any(|w| w == b"patch-") {
            t.nontrivial += 1;
        }
        check_class(t, &name);
    });
    run.finish();
}
