//! C11 - each recognised distinfo line lands on its file; other lines change
//! nothing; no line is dropped because of the bytes in its file name.

use mc_core::model::distinfo::{self as md, File, Model};
use mc_core::par::par_items;
use mc_core::seqs;
use mc_core::{bytes_from_json, bytes_json, guard, Run, Tally, Violation};
use pkgsrc::distinfo::{Distinfo, Entry, EntryType};
use serde_json::{json, Value};
use std::ffi::OsStr;
use std::os::unix::ffi::OsStrExt;

fn entry_model(e: &Entry) -> File {
    File {
        name: e.filename.as_os_str().as_bytes().to_vec(),
        checksums: e.checksums.iter().map(|c| (c.digest.to_string(), c.hash.clone())).collect(),
        size: e.size,
    }
}

fn distinfo_model(d: &Distinfo) -> Model {
    Model {
        rcsid: d.rcsid().map(|r| r.as_bytes().to_vec()),
        distfiles: d.distfiles().iter().map(|e| entry_model(e)).collect(),
        patchfiles: d.patchfiles().iter().map(|e| entry_model(e)).collect(),
    }
}

fn check_text(t: &mut Tally, text: &[u8]) -> bool {
    t.evals += 1;
    t.validated += 1;
    let want = md::parse(text);
    let case = || json!({"text": bytes_json(text)});
    match guard(|| {
        let d = Distinfo::from_bytes(text);
        let m = distinfo_model(&d);
        // the typed lookups must agree with the lists
        let mut lookups_ok = true;
        for f in &m.distfiles {
            lookups_ok &= d.get_distfile(OsStr::from_bytes(&f.name)).map(entry_model).as_ref() == Some(f);
        }
        for f in &m.patchfiles {
            lookups_ok &= d.get_patchfile(OsStr::from_bytes(&f.name)).map(entry_model).as_ref() == Some(f);
        }
        (m, lookups_ok)
    }) {
        Ok((got, lookups_ok)) => {
            if got != want {
                t.violation(Violation::new("text", case(), json!(format!("{:?}", want)), json!(format!("{:?}", got)), "recorded files/checksums/sizes differ from: every recognised line under exactly its name, first-appearance order, checksums in line order, patches apart"));
                false
            } else if !lookups_ok {
                t.violation(Violation::new("text", case(), json!("get_distfile/get_patchfile find every listed entry"), json!("lookup differs"), "typed lookup disagrees with the entry lists"));
                false
            } else {
                true
            }
        }
        Err(m) => {
            t.violation(Violation::new("text", case(), json!("returns"), json!(format!("panic: {}", m)), "distinfo parser panicked"));
            false
        }
    }
}

fn alphabet() -> Vec<Vec<u8>> {
    let mut v: Vec<Vec<u8>> = vec![];
    for (k, n) in ["f.tgz", "d/f.tgz", "patch-aa"].iter().enumerate() {
        v.push(format!("SHA1 ({}) = a{}", n, k).into_bytes());
        v.push(format!("RMD160 ({}) = b{}", n, k).into_bytes());
        v.push(format!("Size ({}) = 7 bytes", n).into_bytes());
    }
    v.push(b"  SHA512 \t(f.tgz)  =\t c0  ".to_vec());
    v.push(b"# SHA1 (f.tgz) = commented".to_vec());
    v.push(b"".to_vec());
    v.push(b"   ".to_vec());
    v.push(b"FOO (f.tgz) = x".to_vec());
    v.push(b"Size (f.tgz) = many bytes".to_vec());
    v.push(b"garbage line here".to_vec());
    v.push(b"$NetBSD: distinfo,v 1.1 $".to_vec());
    v
}

const CLASS_TOK: [&[u8]; 13] = [b"patch-", b"emul-", b"-patch-", b"local-", b"x", b"foo.", b".orig", b".rej", b"~", b".tar.", b"d/", b"\xe9", b"\xc3\xa0"];

fn check_class(t: &mut Tally, name: &[u8]) {
    if name.is_empty() || name.ends_with(b"/") {
        return;
    }
    let want = md::classify(name);
    if want == md::Class::Ambiguous {
        t.outcome("class/undecided-by-the-statement");
        return;
    }
    t.evals += 1;
    t.validated += 1;
    let got = guard(|| EntryType::from(OsStr::from_bytes(name)) == EntryType::Patchfile);
    let want_patch = want == md::Class::Patch;
    match got {
        Ok(g) if g == want_patch => t.outcome(if g { "class/patch" } else { "class/distfile" }),
        Ok(g) => t.violation(Violation::new("class", json!({"name": bytes_json(name)}), json!({"patch": want_patch}), json!({"patch": g}), "classification differs from: patch-* and emul-*-patch-*, except patch-local-*, *.orig, *.rej, *~ and names containing .tar. (file-name part only)")),
        Err(m) => t.violation(Violation::new("class", json!({"name": bytes_json(name)}), json!({"patch": want_patch}), json!(format!("panic: {}", m)), "classifier panicked")),
    }
}

fn replay(doc: &Value) -> Option<Violation> {
    let mut t = Tally::new();
    match doc["kind"].as_str() {
        Some("class") => check_class(&mut t, &bytes_from_json(&doc["case"]["name"])),
        _ => {
            check_text(&mut t, &bytes_from_json(&doc["case"]["text"]));
        }
    }
    t.violations.into_iter().next()
}

fn main() {
    let run = Run::from_args("C11");
    if let Some(doc) = run.replay_case() {
        run.finish_replay(replay(doc), replay(doc));
    }
    run.rule(
        "(a) every sequence of <= N lines over a 17-line alphabet: SHA1/RMD160/Size lines for a \
         distfile, a DIST_SUBDIR distfile and a patch, one line with doubled blanks/tabs and \
         leading/trailing blanks, and 7 noise lines (comment, empty, blanks, unknown algorithm, \
         unparsable size, garbage, RCS Id); (b) for every byte 0x01-0xFF except ASCII whitespace \
         and '/', names b, xb, bx, xbx, and every valid 2-byte UTF-8 sequence ending in 0x85 or \
         0xA0, in a checksum line and a size line between two ordinary lines; (c) every name of \
         <= 4 tokens over 11 classifier-relevant tokens. Oracle: reference line classifier and \
         grouper. Non-trivial = texts mentioning at least two distinct files, byte-sweep names \
         containing a byte >= 0x80, classifier names containing 'patch-'.",
    );
    run.assume("names in path-normal form; lines carry all four fields; 'emul-patch-*' (the only '-patch-' sharing its '-' with 'emul-') is undecided by the statement and skipped");
    run.assume("reference classifier/grouper: mc/core/src/model/distinfo.rs");

    // (a)
    let alpha = alphabet();
    let n = run.pick(5, 6);
    run.bound(format!("(a) all {} sequences of <= {} lines over {} lines", seqs::count(alpha.len(), n), n, alpha.len()));
    seqs::par_seqs(&run, "C11(a)", alpha.len(), n, 2, |_| false, |s, t| {
        let mut text = vec![];
        let mut names = std::collections::BTreeSet::new();
        for i in s {
            text.extend_from_slice(&alpha[*i]);
            text.push(b'\n');
            if *i < 9 {
                names.insert(*i / 3);
            }
        }
        if check_text(t, &text) {
            if names.len() >= 2 {
                t.nontrivial += 1;
            }
            t.outcome(match names.len() {
                0 => "text/no-recognised-file",
                1 => "text/one-file",
                _ => "text/several-files-interleaved",
            });
        }
        if s.len() <= 3 && !text.is_empty() {
            // the same text without its final newline
            check_text(t, &text[..text.len() - 1]);
        }
        t.sample(run.seed, s.iter().fold(1u64, |a, x| a * 23 + *x as u64), || json!({"text": bytes_json(&text)}));
    });

    // scale: long texts interleaving many files (first-appearance order and per-file
    // line order must survive any amount of interleaving)
    {
        let mut t = Tally::new();
        for nfiles in [5usize, 16, 17, 40, 129] {
            for stride in [1usize, 3, 7] {
                let mut text = vec![];
                for round in 0..6 {
                    for k in 0..nfiles {
                        let f = (k * stride + round) % nfiles;
                        let name = if f % 4 == 1 { format!("patch-f{}", f) } else { format!("sub{}/f{}.tgz", f % 3, f) };
                        let line = match round {
                            5 if f % 4 != 1 => format!("Size ({}) = {} bytes", name, 1u64 << (f % 64)),
                            _ => format!("{} ({}) = {:x}", mc_core::model::distinfo::ALGOS[(round + f) % 6], name, f * 1000 + round),
                        };
                        text.extend_from_slice(line.as_bytes());
                        text.push(b'\n');
                        if (f + round) % 11 == 0 {
                            text.extend_from_slice(b"# noise\n\nFOO (x) = y\n");
                        }
                    }
                }
                t.states += 1;
                t.transitions += 1;
                if check_text(&mut t, &text) {
                    t.nontrivial += 1;
                    t.outcome("text/several-files-interleaved");
                }
            }
        }
        run.bound("scale: 15 texts interleaving 5..129 files over 6 rounds with 3 strides, noise lines in between");
        run.merge(t);
    }

    // (b)
    let mut names: Vec<Vec<u8>> = vec![];
    for b in 1u16..=255 {
        let b = b as u8;
        if b == b' ' || (0x09..=0x0d).contains(&b) || b == b'/' {
            continue;
        }
        names.push(vec![b]);
        names.push(vec![b'x', b]);
        names.push(vec![b, b'x']);
        names.push(vec![b'x', b, b'x']);
    }
    for lead in 0xc2u8..=0xdf {
        for tail in [0x85u8, 0xa0] {
            names.push(vec![lead, tail]);
            names.push(vec![b'n', lead, tail, b'.', b't']);
        }
    }
    run.bound(format!("(b) {} swept names x (checksum line, size line, both) between two neighbour lines", names.len()));
    par_items(&run, "C11(b)", &names, |_, name, t| {
        t.states += 1;
        let ck = [b"SHA256 (".as_slice(), name, b") = 0123abcd"].concat();
        let sz = [b"Size (".as_slice(), name, b") = 42 bytes"].concat();
        let before = b"SHA1 (neighbour-one.tgz) = 11\n".to_vec();
        let after = b"\nSize (neighbour-two.tgz) = 2 bytes\nSHA1 (patch-neighbour) = 33\n".to_vec();
        for body in [ck.clone(), sz.clone(), [ck.clone(), b"\n".to_vec(), sz.clone()].concat(), [b" \t".to_vec(), ck.clone()].concat()] {
            let text = [before.clone(), body, after.clone()].concat();
            t.transitions += 1;
            if check_text(t, &text) {
                if name.iter().any(|b| *b >= 0x80) {
                    t.nontrivial += 1;
                    t.outcome("name-bytes/high");
                } else {
                    t.outcome("name-bytes/ascii");
                }
            }
        }
    });

    // (c)
    let m = run.pick(4, 5);
    run.bound(format!("(c) all {} names of <= {} tokens over {:?}", seqs::count(CLASS_TOK.len(), m), m, CLASS_TOK.iter().map(|t| String::from_utf8_lossy(t).into_owned()).collect::<Vec<_>>()));
    seqs::par_seqs(&run, "C11(c)", CLASS_TOK.len(), m, 2, |_| false, |s, t| {
        let name: Vec<u8> = s.iter().flat_map(|i| CLASS_TOK[*i].iter().copied()).collect();
        if name.windows(6).any(|w| w == b"patch-") {
            t.nontrivial += 1;
        }
        check_class(t, &name);
    });
    run.finish();
}
