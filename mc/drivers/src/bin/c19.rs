//! C19 - PKGPATH accepts only category/package forms; both spellings give one
//! value; Depend::new = pattern ':' pkgpath with a single ':'.

use mc_core::model::pattern as mpat;
use mc_core::model::pkgpath as mpath;
use mc_core::seqs;
use mc_core::{guard, Run, Tally, Violation};
use pkgsrc::{Depend, DependError, Pattern, PkgPath};
use serde_json::{json, Value};
use std::collections::hash_map::DefaultHasher;
use std::hash::{Hash, Hasher};
use std::path::Path;
use std::str::FromStr;

const SEG: [&str; 10] = ["..", ".", "a", "b", "", "a.b", ".a", "..a", "...", ".. "];

fn h(p: &PkgPath) -> u64 {
    let mut s = DefaultHasher::new();
    p.hash(&mut s);
    s.finish()
}

fn check_path(t: &mut Tally, input: &str) {
    t.evals += 1;
    t.validated += 1;
    let case = || json!({"path": input});
    let want = mpath::parse(input);
    let got = guard(|| (PkgPath::new(input), PkgPath::from_str(input)));
    let (got, got2) = match got {
        Ok(x) => x,
        Err(m) => {
            t.violation(Violation::new("path", case(), json!("returns"), json!(format!("panic: {}", m)), "PkgPath::new panicked"));
            return;
        }
    };
    if got.is_ok() != got2.is_ok() || matches!((&got, &got2), (Ok(a), Ok(b)) if a != b) {
        t.violation(Violation::new("path", case(), json!("new == from_str"), json!(format!("{:?} vs {:?}", got, got2)), "from_str disagrees with new"));
        return;
    }
    match (&want, &got) {
        (None, Err(_)) => {
            t.outcome("reject");
            if input.matches('/').count() >= 1 {
                t.nontrivial += 1;
            }
        }
        (Some(w), Ok(p)) => {
            let short = format!("{}/{}", w.category, w.package);
            let full = format!("../../{}/{}", w.category, w.package);
            let r = guard(|| {
                let a = PkgPath::new(&short);
                let b = PkgPath::new(&full);
                let re1 = p.as_path().to_str().map(PkgPath::new);
                let re2 = p.as_full_path().to_str().map(PkgPath::new);
                (a, b, re1, re2)
            });
            let (a, b, re1, re2) = match r {
                Ok(x) => x,
                Err(m) => {
                    t.violation(Violation::new("path", case(), json!("returns"), json!(format!("panic: {}", m)), "PkgPath panicked"));
                    return;
                }
            };
            let mut bad = |what: &str, exp: Value, obs: Value| t.violation(Violation::new("path", case(), exp, obs, what));
            if p.as_path() != Path::new(&short) {
                bad("short path must be category/package", json!(short), json!(p.as_path().to_string_lossy()));
                return;
            }
            if p.as_full_path() != Path::new(&full) {
                bad("full path must be ../../category/package", json!(full), json!(p.as_full_path().to_string_lossy()));
                return;
            }
            match (a, b) {
                (Ok(a), Ok(b)) => {
                    if a != *p || b != *p || a != b {
                        bad("both spellings must produce equal values", json!("equal"), json!(format!("{:?} / {:?} / {:?}", p, a, b)));
                        return;
                    }
                    if h(&a) != h(p) || h(&b) != h(p) {
                        bad("equal values must hash equally", json!("equal hashes"), json!("different hashes"));
                        return;
                    }
                    // equal values are equal under every comparison the type offers
                    use std::cmp::Ordering::Equal;
                    if a.cmp(p) != Equal || b.cmp(p) != Equal || p.cmp(&a) != Equal || a.partial_cmp(&b) != Some(Equal) {
                        bad("equal values must compare Equal under Ord / PartialOrd", json!("Equal"), json!(format!("{:?} / {:?} / {:?}", a.cmp(p), b.cmp(p), a.partial_cmp(&b))));
                        return;
                    }
                    let set: std::collections::BTreeSet<&PkgPath> = [&a, &b, p].into_iter().collect();
                    if set.len() != 1 {
                        bad("equal values collapse to one element of an ordered set", json!(1), json!(set.len()));
                        return;
                    }
                }
                other => {
                    bad("the canonical spellings of an accepted path must be accepted", json!("Ok, Ok"), json!(format!("{:?}", other)));
                    return;
                }
            }
            for re in [re1, re2] {
                match re {
                    Some(Ok(q)) if q == *p => {}
                    other => {
                        bad("re-parsing an accessor's output must give an equal value", json!("Ok(equal)"), json!(format!("{:?}", other)));
                        return;
                    }
                }
            }
            t.nontrivial += 1;
            t.outcome(if input.starts_with("..") { "accept/long-form" } else { "accept/short-form" });
        }
        // "ordinary names": whether a name holding a control character (NUL, LF, ESC, C1 ...) is
        // ordinary is not decided by the statement; rejecting such a path is admissible
        (Some(_), Err(_)) if input.chars().any(|c| c.is_control() || c.is_whitespace() || "\"'`".contains(c)) => t.outcome("reject/control-blank-or-quote-in-a-name (not constrained)"),
        (w, g) => t.violation(Violation::new(
            "path",
            case(),
            json!({"accepted": w.is_some()}),
            json!({"accepted": g.is_ok()}),
            "accept set differs from: component-wise 'category/package' or '../../category/package' with ordinary names (repeated and trailing slashes and non-leading '.' ignored)",
        )),
    }
}

const PATTERNS: [&str; 15] = ["p-[0-9]*", "p>=1<2", "{p,q}-1", "p-1", "p>1>2", "{p", "", "{foo-[,p-[0-9]*}", "{p>1>2,q-1}", "{p,{q,r}}-[0-9]*", "{,p}-1",
    // a colon is a colon wherever it stands (a pattern half that holds some is no pattern half at all)
    "pkg-[[:digit:]]*", "p-[:]*", "p[:]-1", "{p:,q}-1"];
const PATHS: [&str; 11] = ["c/p", "../../c/p", "c", "a/b/c", "a/../b", "", "c//p/", "./c/p", "c/p\n", "c/\n", "../../c/p/\n"];

fn check_depend(t: &mut Tally, pat: &str, path: &str, colons: &[usize]) {
    // colons[i] = number of ':' inserted at: 0 = before, 1 = between the halves, 2 = after
    let input = format!("{}{}{}{}{}", ":".repeat(colons[0]), pat, ":".repeat(colons[1]), path, ":".repeat(colons[2]));
    t.evals += 1;
    t.validated += 1;
    let case = || json!({"depend": input});
    // what the rule says about the assembled string, independent of how it was built
    let parts: Vec<&str> = input.split(':').collect();
    let want = if parts.len() == 2 && mpat::valid(parts[0]) {
        mpath::parse(parts[1]).map(|p| (parts[0].to_string(), p))
    } else {
        None
    };
    let got = guard(|| Depend::new(&input));
    let got = match got {
        Ok(g) => g,
        Err(m) => {
            t.violation(Violation::new("depend", case(), json!("returns"), json!(format!("panic: {}", m)), "Depend::new panicked"));
            return;
        }
    };
    match (&want, &got) {
        (None, Err(e)) => {
            // which variant reports the failure is not part of the statement; it is only recorded
            t.outcome(match e {
                DependError::Invalid => "reject/colon-count",
                DependError::Pattern(_) => "reject/pattern",
                DependError::PkgPath(_) => "reject/pkgpath",
            });
            t.nontrivial += 1;
        }
        (Some((wp, wpath)), Ok(d)) => {
            // the dependency's pattern is used before it is compared (equality is about the value, not
            // about what an object has been used for)
            let _ = guard(|| (d.pattern().matches("p-1"), d.pattern().matches("q-2.0"), d.pattern().best_match("p-1", "p-2"), d.pattern().matches(wp)));
            let again = guard(|| Depend::new(&input));
            if !matches!(&again, Ok(Ok(d2)) if d2 == d && d2.pattern() == d.pattern()) {
                t.violation(Violation::new("depend", case(), json!("equal to a freshly parsed one, also after its pattern was used"), json!(format!("{:?}", again.map(|r| r.map(|x| x == *d)))), "a dependency equals the same text parsed again"));
                return;
            }
            let direct = guard(|| (Pattern::new(wp), PkgPath::new(parts[1])));
            match direct {
                Ok((Ok(dp), Ok(dpath))) => {
                    if d.pattern() != &dp || d.pkgpath() != &dpath {
                        t.violation(Violation::new("depend", case(), json!("parts equal to parsing each half directly"), json!(format!("{:?} / {:?}", d.pattern(), d.pkgpath())), "Depend parts differ from the halves parsed directly"));
                    } else if d.pkgpath().as_path() != Path::new(&format!("{}/{}", wpath.category, wpath.package)) {
                        t.violation(Violation::new("depend", case(), json!(format!("{}/{}", wpath.category, wpath.package)), json!(d.pkgpath().as_path().to_string_lossy()), "Depend pkgpath differs"));
                    } else {
                        t.outcome("accept");
                    }
                }
                other => t.violation(Violation::new("depend", case(), json!("halves parse directly"), json!(format!("{:?}", other.map(|(a, b)| (a.is_ok(), b.is_ok())))), "Depend accepted but a half does not parse on its own")),
            }
        }
        (Some(_), Err(_)) if parts[1].chars().any(|c| c.is_control() || c.is_whitespace() || "\"'`".contains(c)) => t.outcome("reject/control-blank-or-quote-in-a-name (not constrained)"),
        (w, g) => t.violation(Violation::new(
            "depend",
            case(),
            json!({"accepted": w.is_some()}),
            json!({"accepted": g.is_ok()}),
            "Depend::new must succeed exactly for 'pattern:pkgpath' with a single ':' and both halves valid",
        )),
    }
}

fn replay(doc: &Value) -> Option<Violation> {
    let c = &doc["case"];
    let mut t = Tally::new();
    match doc["kind"].as_str() {
        Some("depend") => check_depend(&mut t, c["depend"].as_str().unwrap_or(""), "", &[0, 0, 0]),
        _ => check_path(&mut t, c["path"].as_str().unwrap_or("")),
    }
    t.violations.into_iter().next()
}

fn main() {
    let run = Run::from_args("C19");
    if let Some(doc) = run.replay_case() {
        run.finish_replay(replay(doc), replay(doc));
    }
    run.rule(
        "paths: every sequence of <= N segments over {'..', '.', 'a', 'b', '' (empty), 'a.b', '.a', '..a', '...', '.. '} joined \
         by '/', with and without a leading '/': accept set vs the component rule; for accepted \
         inputs the short / full accessors (as paths), equality and equal hashes of the value with \
         both canonical spellings, and re-parsing each accessor's text. Dependencies: 11 pattern \
         halves (glob, two-bound dewey, brace, plain, invalid operator order, unbalanced brace, \
         empty) x 11 path halves (short, long, one segment, three segments, 'a/../b', empty, \
         repeated slashes, leading './') x 0-3 colons before, between and after the halves: Ok iff \
         the assembled string has exactly one ':' and both halves are valid; parts equal to the \
         halves parsed directly. Non-trivial = accepted \
         paths, rejected paths with at least one '/', rejected dependencies.",
    );
    run.assume("a name holding a control character, a blank or a quote may be rejected or accepted (if accepted, all value clauses apply); reference normaliser mc/core/src/model/pkgpath.rs; pattern validity from the composed pattern model");

    let n = run.pick(6, 8);
    run.bound(format!("all {} segment sequences of <= {} segments x {{relative, leading '/'}}; those of <= 6 segments also as the path half of a dependency", seqs::count(SEG.len(), n), n));
    seqs::par_seqs(&run, "C19 paths", SEG.len(), n, 2, |_| false, |s, t| {
        let joined: Vec<&str> = s.iter().map(|i| SEG[*i]).collect();
        let p = joined.join("/");
        check_path(t, &p);
        t.transitions += 1;
        check_path(t, &format!("/{}", p));
        // every such path also as the path half of a dependency (accepted exactly when the path is)
        if s.len() <= 6 {
            t.transitions += 2;
            let (x, y) = if s.len() % 2 == 0 { ("p-[0-9]*", "p>=1") } else { ("p>=1", "p-[0-9]*") };
            check_depend(t, x, &p, &[0, 1, 0]);
            check_depend(t, y, &format!("/{}", p), &[0, 1, 0]);
        }
        t.sample(run.seed, s.iter().fold(1u64, |a, x| a * 7 + *x as u64), || json!({"path": p}));
    });
    let mut t = Tally::new();
    let mut count = 0;
    for pat in PATTERNS {
        for path in PATHS {
            for c0 in 0..=1 {
                for c1 in 0..=3 {
                    for c2 in 0..=1 {
                        t.states += 1;
                        t.transitions += 1;
                        count += 1;
                        check_depend(&mut t, pat, path, &[c0, c1, c2]);
                    }
                }
            }
        }
    }
    run.bound(format!("{} dependency strings", count));
    run.merge(t);
    // scale: long paths
    {
        let mut t = Tally::new();
        for n in [8usize, 64, 1000, 5000] {
            for (a, sep, b, tail) in [("a", "/", "b", ""), ("a", "/./", "b", "/."), ("..", "/", "../a/b", "/"), ("a", "/", "b", "/c"), ("", "/", "a/b", ""), (".", "/", "a/b", "")] {
                let p = format!("{}{}{}{}", a, sep.repeat(n), b, tail);
                t.states += 1;
                t.transitions += 1;
                check_path(&mut t, &p);
                check_path(&mut t, &format!("{}{}", "a/".repeat(n), "b"));
                check_depend(&mut t, "p-[0-9]*", &p, &[0, 1, 0]);
            }
        }
        run.bound("scale: paths with 8..5000 repeated separators / '.' segments / name segments");
        run.merge(t);
    }
    // character sweep: every ASCII (incl. NUL) and 64 special non-ASCII characters inside segments
    {
        let mut t = Tally::new();
        let mut chars: Vec<char> = mc_core::chars::all().into_iter().filter(|c| *c != '/').collect();
        chars.push('\0');
        run.bound(format!("character sweep: {} characters in five path positions and in a dependency's path half", chars.len()));
        for c in chars {
            for p in [format!("a{}/b", c), format!("{}/b", c), format!("a/{}", c), format!("a/b{}", c), format!("../../a{}/b", c)] {
                t.states += 1;
                check_path(&mut t, &p);
            }
            check_depend(&mut t, "p-[0-9]*", &format!("c{}/p", c), &[0, 1, 0]);
        }
        run.merge(t);
    }
    // typed-looking texts as a path and as the path half of a dependency: quoted, URL-like, with
    // blanks, with the syntax of the other formats
    {
        let mut t = Tally::new();
        let mut vals: Vec<String> = mc_core::chars::TYPED_VALUES.iter().map(|v| v.to_string()).collect();
        for q in ["\"c/p\"", "'c/p'", "\"../../c/p\"", "`c/p`", "(c/p)", "<c/p>", "[c/p]", "{c/p}", "c/p\"", "\"c/p", "c/\"p\"", "\"c\"/p", " c/p", "c/p ", "c /p", "c/p#x", "c/p?x", "c/p;x", "C/P", "c/p.", "c./p"] {
            vals.push(q.to_string());
        }
        run.bound(format!("typed-looking paths: {} texts as a path and as the path half of a dependency", vals.len()));
        for v in &vals {
            t.states += 1;
            check_path(&mut t, v);
            if !v.contains(':') {
                check_depend(&mut t, "p-[0-9]*", v, &[0, 1, 0]);
            }
        }
        run.merge(t);
    }
    run.finish();
}
