//! C01 - version comparison follows pkg_install's dewey ordering.
//!
//! Exhaustive over: all ordered pairs of versions built from <= N tokens of a
//! 35-token alphabet x 4 operators (through `Pattern`), all unordered pairs
//! through `best_match`, all character-level strings <= L over a 16-char
//! alphabet against 24 probe versions (both placements), and an 18-digit pool.

use mc_core::model::dewey::{self, LetterWeight, Op, Ver, OPS};
use mc_core::par::par_items;
use mc_core::seqs;
use mc_core::{guard, Run, Tally, Violation};
use pkgsrc::Pattern;
use serde_json::{json, Value};
use std::cmp::Ordering;
use std::collections::BTreeSet;

const FINDING: &str = "letter-weight-ascii";

/// The last two tokens are characters whose *Unicode* lower-case mapping yields
/// ASCII letters (KELVIN SIGN -> k, I WITH DOT ABOVE -> i + combining dot):
/// they are non-ASCII and must be ignored, not read as letters.  The three after them
/// are non-ASCII *numeric* characters (ARABIC-INDIC DIGIT THREE, SUPERSCRIPT TWO, FULLWIDTH
/// DIGIT ONE): not ASCII digits, so ignored as well.
const TOKENS: [&str; 35] = [
    "0", "1", "2", "10", "09", ".", "_", "alpha", "beta", "rc", "pre", "pl", "nb", "a", "b", "z",
    "n", "p", "r", "ALPHA", "Beta", "RC", "Pre", "PL", "NB", "A", "Z", "+", "é", "~", "\u{212a}", "\u{130}", "\u{663}", "\u{b2}", "\u{ff11}",
];

const CHARS: [char; 16] = [
    '0', '1', '.', '_', 'a', 'l', 'p', 'h', 'b', 'e', 't', 'r', 'c', 'n', 'A', 'N',
];

/// Probe versions chosen to separate every weight: modifiers -3..0, letters
/// (rank 1..26 against numbers 0,1,2,10,26,27,96,97,123), revisions 0/1/2.
const PROBES: [&str; 24] = [
    "", "0", "1", "2", "10", "1.0", "1.1", "1alpha", "1beta", "1rc", "1pl", "1a", "1b", "1z",
    "1.0.1", "1.0.2", "1.0.26", "1.0.27", "1.0.96", "1.0.97", "1.0.123", "1nb1", "1nb2", "1.0.0.1",
];

fn op_name(op: Op) -> &'static str {
    op.text()
}

fn op_from(s: &str) -> Op {
    match s {
        ">" => Op::Gt,
        ">=" => Op::Ge,
        "<" => Op::Lt,
        _ => Op::Le,
    }
}

/// What decided the model comparison (for the outcome histogram and the
/// non-triviality count).
fn decided_by(a: &Ver, b: &Ver) -> (&'static str, bool) {
    let n = a.comps.len().min(b.comps.len());
    for i in 0..n {
        if a.comps[i] != b.comps[i] {
            return if i == 0 { ("first-component", false) } else { ("later-component", true) };
        }
    }
    let (long, short) = if a.comps.len() > b.comps.len() { (a, b) } else { (b, a) };
    for i in short.comps.len()..long.comps.len() {
        if long.comps[i] != 0 {
            return ("padding", true);
        }
    }
    if a.rev != b.rev {
        ("revision", true)
    } else {
        ("tie", a.comps.len() != b.comps.len())
    }
}

fn ord_name(o: Ordering) -> &'static str {
    match o {
        Ordering::Less => "less",
        Ordering::Equal => "equal",
        Ordering::Greater => "greater",
    }
}

struct Pool {
    strs: Vec<String>,
    names: Vec<String>,
    rank: Vec<Ver>,
    ascii: Vec<Ver>,
}

impl Pool {
    fn new(strs: Vec<String>) -> Pool {
        let names = strs.iter().map(|s| format!("p-{}", s)).collect();
        let rank = strs.iter().map(|s| dewey::tokenise(s, LetterWeight::Rank)).collect();
        let ascii = strs
            .iter()
            .map(|s| dewey::tokenise(s, LetterWeight::AsciiLower))
            .collect();
        Pool { strs, names, rank, ascii }
    }
}

fn token_strings(max: usize) -> Vec<String> {
    let mut set = BTreeSet::new();
    let mut pre = vec![];
    let mut visit = |s: &[usize]| {
        let v: String = s.iter().map(|i| TOKENS[*i]).collect();
        set.insert((s.len(), v));
    };
    seqs::dfs(TOKENS.len(), max, &mut pre, &|_| false, &mut visit);
    // shortest token count first, then lexicographic; a string reachable by
    // several token sequences is kept once (at its smallest token count)
    let mut seen = BTreeSet::new();
    let mut out = vec![];
    for (_, v) in set {
        if seen.insert(v.clone()) {
            out.push(v);
        }
    }
    out
}

fn cmp_case(a: &str, b: &str, op: Op) -> Value {
    json!({"pkg_version": a, "bound": b, "op": op_name(op),
           "pattern": format!("p{}{}", op_name(op), b), "name": format!("p-{}", a)})
}

/// Check the four verdicts (A > B, A >= B, A < B, A <= B) of one ordered pair together.  They
/// must be the four the dewey rule gives; while the letter-weight finding is open they may
/// instead be exactly the four its recorded variant gives - never a mixture, so an
/// implementation that answers "equal" where the two models say "less" and "greater" is a
/// violation, not a known case.
#[inline]
fn judge4(run: &Run, t: &mut Tally, a: &str, b: &str, got: [bool; 4], ra: &Ver, rb: &Ver, aa: &Ver, ab: &Ver) {
    let o = dewey::cmp(ra, rb);
    let want = [OPS[0].holds(o), OPS[1].holds(o), OPS[2].holds(o), OPS[3].holds(o)];
    if got == want {
        return;
    }
    let ov = dewey::cmp(aa, ab);
    let variant = [OPS[0].holds(ov), OPS[1].holds(ov), OPS[2].holds(ov), OPS[3].holds(ov)];
    let k = (0..4).find(|k| got[*k] != want[*k]).unwrap();
    if got == variant && run.finding_open(FINDING) {
        t.known(FINDING, || cmp_case(a, b, OPS[k]));
        return;
    }
    t.violation(Violation::new(
        "cmp",
        cmp_case(a, b, OPS[k]),
        json!({"op": op_name(OPS[k]), "verdict": want[k], "all four (> >= < <=)": want}),
        json!({"op": op_name(OPS[k]), "verdict": got[k], "all four (> >= < <=)": got}),
        "Pattern verdict differs from the dewey rule",
    ));
}

/// The four verdicts of `p-<a>` against `p<op><b>`, patterns compiled per call.
fn four_verdicts(t: &mut Tally, a: &str, b: &str) -> Option<[bool; 4]> {
    let name = format!("p-{}", a);
    let mut got = [false; 4];
    for (k, op) in OPS.iter().enumerate() {
        t.evals += 1;
        t.validated += 1;
        let pat = format!("p{}{}", op_name(*op), b);
        match guard(|| Pattern::new(&pat).map(|p| p.matches(&name))) {
            Ok(Ok(g)) => got[k] = g,
            Ok(Err(e)) => {
                t.violation(Violation::new("cmp", cmp_case(a, b, *op), json!("compiles"), json!(format!("compile error: {}", e)), "a single-operator pattern must compile"));
                return None;
            }
            Err(m) => {
                t.violation(Violation::new("cmp", cmp_case(a, b, *op), json!("a verdict"), json!(format!("panic: {}", m)), "matching panicked"));
                return None;
            }
        }
    }
    Some(got)
}

fn compile(b: &str, op: Op) -> Result<Pattern, String> {
    let p = format!("p{}{}", op_name(op), b);
    match guard(|| Pattern::new(&p)) {
        Ok(Ok(p)) => Ok(p),
        Ok(Err(e)) => Err(format!("compile error: {}", e)),
        Err(m) => Err(format!("panic: {}", m)),
    }
}

/// All A in `avail` against bound B (index `bi` of `pool`), 4 operators.
fn sweep_bound(run: &Run, t: &mut Tally, pool: &Pool, bi: usize, a_idx: &[usize]) {
    let b = &pool.strs[bi];
    let mut pats = vec![];
    for op in OPS {
        match compile(b, op) {
            Ok(p) => pats.push((op, p)),
            Err(m) => {
                t.violation(Violation::new(
                    "cmp",
                    cmp_case("", b, op),
                    json!("compiles"),
                    json!(m),
                    "a single-operator pattern must compile",
                ));
                return;
            }
        }
    }
    let mut hist = [[0u64; 5]; 3];
    for &ai in a_idx {
        let ra = &pool.rank[ai];
        let rb = &pool.rank[bi];
        let o = dewey::cmp(ra, rb);
        let (why, nontrivial) = decided_by(ra, rb);
        let wi = match why {
            "first-component" => 0,
            "later-component" => 1,
            "padding" => 2,
            "revision" => 3,
            _ => 4,
        };
        hist[(o as i8 + 1) as usize][wi] += 1;
        if nontrivial {
            t.nontrivial += 1;
        }
        let name = &pool.names[ai];
        let r = guard(|| {
            let mut v = [false; 4];
            for (k, (_, p)) in pats.iter().enumerate() {
                v[k] = p.matches(name);
            }
            v
        });
        match r {
            Ok(v) => {
                t.evals += 4;
                t.validated += 4;
                judge4(run, t, &pool.strs[ai], b, v, ra, rb, &pool.ascii[ai], &pool.ascii[bi]);
            }
            Err(m) => t.violation(Violation::new(
                "cmp",
                cmp_case(&pool.strs[ai], b, Op::Gt),
                json!("a verdict"),
                json!(format!("panic: {}", m)),
                "matching panicked",
            )),
        }
        t.sample(run.seed, (bi * 31 + ai) as u64, || cmp_case(&pool.strs[ai], b, Op::Ge));
    }
    for (oi, row) in hist.iter().enumerate() {
        let on = ["less", "equal", "greater"][oi];
        for (wi, n) in row.iter().enumerate() {
            let wn = ["first-component", "later-component", "padding", "revision", "tie"][wi];
            t.outcome_n(&format!("{}/{}", on, wn), *n);
        }
    }
}

fn best_case(a: &str, b: &str) -> Value {
    json!({"pattern": "p-*", "pkg1": format!("p-{}", a), "pkg2": format!("p-{}", b)})
}

fn best_expected<'a>(n1: &'a str, n2: &'a str, v1: &Ver, v2: &Ver) -> &'a str {
    match dewey::cmp(v1, v2) {
        Ordering::Greater => n1,
        Ordering::Less => n2,
        Ordering::Equal => {
            if n1.as_bytes() <= n2.as_bytes() {
                n1
            } else {
                n2
            }
        }
    }
}

fn sweep_best(run: &Run, t: &mut Tally, star: &Pattern, pool: &Pool, i: usize, lo: usize, hi: usize) {
    for j in lo..hi {
        let (n1, n2) = (&pool.names[i], &pool.names[j]);
        let got = guard(|| star.best_match(n1, n2).map(|s| s.to_string()));
        t.evals += 1;
        t.validated += 1;
        let want = best_expected(n1, n2, &pool.rank[i], &pool.rank[j]);
        match got {
            Ok(Some(g)) if g == want => {}
            Ok(g) => {
                let variant = best_expected(n1, n2, &pool.ascii[i], &pool.ascii[j]);
                if g.as_deref() == Some(variant) && run.finding_open(FINDING) {
                    t.known(FINDING, || best_case(&pool.strs[i], &pool.strs[j]));
                } else {
                    t.violation(Violation::new(
                        "best",
                        best_case(&pool.strs[i], &pool.strs[j]),
                        json!(want),
                        json!(g),
                        "best_match does not return the candidate the dewey rule ranks highest",
                    ));
                }
            }
            Err(m) => t.violation(Violation::new(
                "best",
                best_case(&pool.strs[i], &pool.strs[j]),
                json!(want),
                json!(format!("panic: {}", m)),
                "best_match panicked",
            )),
        }
    }
}

/// (c)-style and (b)-style: one string against a list of others, both
/// placements, all operators, patterns compiled per call.
fn both_placements(run: &Run, t: &mut Tally, a: &str, b: &str) {
    let ra = dewey::tokenise(a, LetterWeight::Rank);
    let rb = dewey::tokenise(b, LetterWeight::Rank);
    let aa = dewey::tokenise(a, LetterWeight::AsciiLower);
    let ab = dewey::tokenise(b, LetterWeight::AsciiLower);
    let (why, nontrivial) = decided_by(&ra, &rb);
    t.outcome(&format!("{}/{}", ord_name(dewey::cmp(&ra, &rb)), why));
    if nontrivial {
        t.nontrivial += 1;
    }
    for (x, y, rx, ry, ax, ay) in [(a, b, &ra, &rb, &aa, &ab), (b, a, &rb, &ra, &ab, &aa)] {
        if let Some(got) = four_verdicts(t, x, y) {
            judge4(run, t, x, y, got, rx, ry, ax, ay);
        }
    }
}

fn replay(run: &Run, doc: &Value) -> Option<Violation> {
    let mut t = Tally::new();
    let c = &doc["case"];
    match doc["kind"].as_str() {
        Some("cmp") => {
            let a = c["pkg_version"].as_str().unwrap_or("");
            let b = c["bound"].as_str().unwrap_or("");
            let op = op_from(c["op"].as_str().unwrap_or(">"));
            let ra = dewey::tokenise(a, LetterWeight::Rank);
            let rb = dewey::tokenise(b, LetterWeight::Rank);
            let aa = dewey::tokenise(a, LetterWeight::AsciiLower);
            let ab = dewey::tokenise(b, LetterWeight::AsciiLower);
            let _ = op;
            if let Some(got) = four_verdicts(&mut t, a, b) {
                judge4(run, &mut t, a, b, got, &ra, &rb, &aa, &ab);
            }
        }
        Some("reuse-cmp") => {
            let bound = c["bound"].as_str().unwrap_or("1.0");
            let pats: Vec<Pattern> = OPS.iter().filter_map(|op| Pattern::new(&format!("p{}{}", op_name(*op), bound)).ok()).collect();
            if pats.len() == 4 {
                let mut buf = String::with_capacity(64);
                for v in [c["previous_content"].as_str(), c["content"].as_str()].into_iter().flatten() {
                    buf.clear();
                    buf.push_str("p-");
                    buf.push_str(v);
                    let got = [pats[0].matches(&buf), pats[1].matches(&buf), pats[2].matches(&buf), pats[3].matches(&buf)];
                    if Some(v) == c["content"].as_str() {
                        judge4(run, &mut t, v, bound, got, &dewey::tokenise(v, LetterWeight::Rank), &dewey::tokenise(bound, LetterWeight::Rank), &dewey::tokenise(v, LetterWeight::AsciiLower), &dewey::tokenise(bound, LetterWeight::AsciiLower));
                    }
                }
            }
        }
        Some("best") if c["pattern"] == "*" => {
            let n1 = c["pkg1"].as_str().unwrap_or("");
            let n2 = c["pkg2"].as_str().unwrap_or("");
            let ver = |n: &str| n.rsplit_once('-').map(|x| x.1.to_string()).unwrap_or_default();
            let (r1, r2) = (dewey::tokenise(&ver(n1), LetterWeight::Rank), dewey::tokenise(&ver(n2), LetterWeight::Rank));
            let (a1, a2) = (dewey::tokenise(&ver(n1), LetterWeight::AsciiLower), dewey::tokenise(&ver(n2), LetterWeight::AsciiLower));
            let want = best_expected(n1, n2, &r1, &r2);
            let star = Pattern::new("*").unwrap();
            let g = star.best_match(n1, n2).map(|s| s.to_string());
            if g.as_deref() != Some(want) && !(g.as_deref() == Some(best_expected(n1, n2, &a1, &a2)) && run.finding_open(FINDING)) {
                t.violation(Violation::new("best", c.clone(), json!(want), json!(g), "best_match does not return the candidate the dewey rule ranks highest"));
            }
        }
        Some("best") => {
            let n1 = c["pkg1"].as_str().unwrap_or("");
            let n2 = c["pkg2"].as_str().unwrap_or("");
            let pool = Pool::new(vec![n1[2..].to_string(), n2[2..].to_string()]);
            let star = Pattern::new("p-*").unwrap();
            sweep_best(run, &mut t, &star, &pool, 0, 1, 2);
        }
        _ => run.fault("unknown replay kind"),
    }
    t.violations.into_iter().next()
}

fn main() {
    let run = Run::from_args("C01");
    if let Some(doc) = run.replay_case() {
        let a = replay(&run, doc);
        let b = replay(&run, doc);
        run.finish_replay(a, b);
    }
    run.rule(
        "every ordered pair of versions built from <= N tokens of a 35-token alphabet, each \
         operator through a compiled Pattern against the name p-<A>; every unordered pair through \
         best_match; every string <= L over a 16-character alphabet against 24 probe versions in \
         both placements; an 18-digit pool. Non-trivial = the model comparison is decided after \
         the first component (later component, zero padding, revision, or a tie of versions of \
         different length).",
    );
    run.assume("versions contain none of - < > { } and digit runs have a value below 10^18 (at most 18 digits after leading zeros; statement domain)");
    run.assume("reference dewey model written from the statement: mc/core/src/model/dewey.rs");

    // (a) token-level versions
    let ntok = run.pick(2, 3);
    let big = Pool::new(token_strings(3));
    let small_n = token_strings(2).len();
    // token_strings orders by token count, so the <=2-token versions are not
    // necessarily a prefix after dedup; build the index set explicitly
    let small: BTreeSet<String> = token_strings(2).into_iter().collect();
    let small_idx: Vec<usize> = (0..big.strs.len()).filter(|i| small.contains(&big.strs[*i])).collect();
    assert_eq!(small_idx.len(), small_n);
    let n = big.strs.len();
    run.bound(format!(
        "(a) {} distinct versions of <=3 tokens, {} of <=2 tokens; tier covers all ordered pairs of <={}-token versions{}",
        n,
        small_n,
        ntok,
        if ntok == 2 { " plus every <=3-token version against every <=2-token version in both placements" } else { "" }
    ));
    let items: Vec<usize> = (0..n).collect();
    let is_small: Vec<bool> = (0..n).map(|i| small.contains(&big.strs[i])).collect();
    par_items(&run, "C01(a) bounds", &items, |_, bi, t| {
        t.states += 1;
        if run.thorough() || is_small[*bi] {
            t.transitions += n as u64;
            sweep_bound(&run, t, &big, *bi, &items);
        } else {
            t.transitions += small_idx.len() as u64;
            sweep_bound(&run, t, &big, *bi, &small_idx);
        }
    });

    // best_match over unordered pairs (including the pair of a version with itself)
    let star = Pattern::new("p-*").expect("p-* must compile");
    par_items(&run, "C01(a) best_match", &items, |_, i, t| {
        if run.thorough() {
            t.transitions += (n - *i) as u64;
            sweep_best(&run, t, &star, &big, *i, *i, n);
        } else if is_small[*i] {
            for j in &small_idx {
                t.transitions += 1;
                sweep_best(&run, t, &star, &big, *i, *j, *j + 1);
            }
        }
    });

    // (b) character-level strings against probes
    let l = run.pick(4, 5);
    run.bound(format!(
        "(b) all strings of length <= {} over {:?} ({} strings) x {} probes x 4 operators x 2 placements",
        l,
        CHARS,
        seqs::count(CHARS.len(), l),
        PROBES.len()
    ));
    seqs::par_seqs(&run, "C01(b) char strings", CHARS.len(), l, 2, |_| false, |s, t| {
        let v: String = s.iter().map(|i| CHARS[*i]).collect();
        for p in PROBES {
            both_placements(&run, t, &v, p);
        }
        t.sample(run.seed, s.iter().fold(7u64, |a, x| a * 17 + *x as u64), || {
            json!({"version": v, "against": "24 probes, both placements, 4 operators"})
        });
    });

    // (c) 18-digit pool
    let digits = [
        "999999999999999999",
        "999999999999999998",
        "100000000000000000",
        "100000000000000001",
        "099999999999999999",
        "000000000000000001",
        "1",
        "0",
        "9223372036854775",
        "1.999999999999999999",
        "1.999999999999999999nb999999999999999999",
        "1nb999999999999999998",
    ];
    run.bound(format!("(c) all ordered pairs of {} versions with 18-digit runs", digits.len()));
    let mut t = Tally::new();
    for a in digits {
        for b in digits {
            t.states += 1;
            t.transitions += 1;
            both_placements(&run, &mut t, a, b);
        }
    }
    run.merge(t);

    // (d) scale: many components, and the whole range of numeric magnitudes.  Thresholds
    // (a fast path above N components, an integer width below 64 bits) do not show
    // up in 3-token versions.
    let mut long: Vec<String> = vec![];
    for n in 1..=run.pick(72, 140) {
        for (sep, last) in [(".0", ""), (".0", ".1"), (".1", ""), ("_0", "nb1"), (".0", "rc1"), (".0", "a")] {
            long.push(format!("1{}{}", sep.repeat(n - 1), last));
        }
    }
    run.bound(format!("(d) all ordered pairs of {} long versions (1..{} components); four operators", long.len(), run.pick(72, 140)));
    par_items(&run, "C01(d) long versions", &long, |_, a, t| {
        for b in &long {
            t.states += 1;
            t.transitions += 1;
            t.evals += 1;
            // one placement, four operators
            let ra = dewey::tokenise(a, LetterWeight::Rank);
            let rb = dewey::tokenise(b, LetterWeight::Rank);
            let aa = dewey::tokenise(a, LetterWeight::AsciiLower);
            let ab = dewey::tokenise(b, LetterWeight::AsciiLower);
            if let Some(got) = four_verdicts(t, a, b) {
                judge4(&run, t, a, b, got, &ra, &rb, &aa, &ab);
            }
            t.nontrivial += 1;
        }
        t.outcome("long-versions/row");
    });
    let mut ladder: Vec<String> = vec!["0".into()];
    for e in 0..63u32 {
        let v = 1u64 << e;
        for d in [v.saturating_sub(1), v, v + 1] {
            ladder.push(d.to_string());
        }
    }
    let mut p10 = 1u64;
    for _ in 0..18 {
        ladder.push((p10 - 1).to_string());
        ladder.push(p10.to_string());
        p10 *= 10;
    }
    ladder.sort();
    ladder.dedup();
    let ladder: Vec<String> = ladder.into_iter().filter(|s| s.len() <= 18).collect();
    run.bound(format!("(d) magnitude ladder: {} numbers (2^e-1, 2^e, 2^e+1, 10^e-1, 10^e, up to 18 digits), all ordered pairs as second component and as revision", ladder.len()));
    par_items(&run, "C01(d) magnitudes", &ladder, |_, a, t| {
        for b in &ladder {
            t.states += 1;
            t.transitions += 2;
            both_placements(&run, t, &format!("1.{}", a), &format!("1.{}", b));
            both_placements(&run, t, &format!("2nb{}", a), &format!("2nb{}", b));
        }
    });
    // (f) two-site family: a base of n components in which every pair of positions takes every
    // pair of tokens from a small set, with and without a revision - coincidences between two
    // tokens at a distance, which <= 3-token versions cannot contain
    {
        let n = run.pick(6, 8);
        let set: Vec<&str> = if run.thorough() { vec!["0", "1", "7", "10", "alpha", "beta", "rc", "pl", "a", "z", "nb3", "", "00"] } else { vec!["0", "1", "10", "alpha", "rc", "pl", "a", "nb3", "", "00"] };
        let mut two: Vec<String> = vec![];
        for i in 0..n {
            for j in i + 1..n {
                for x in &set {
                    for y in &set {
                        let comps: Vec<&str> = (0..n).map(|k| if k == i { *x } else if k == j { *y } else { "1" }).collect();
                        let v = comps.join(".");
                        two.push(format!("{}nb2", v));
                        two.push(v);
                    }
                }
            }
        }
        two.sort();
        two.dedup();
        run.bound(format!("(f) two-site family: {} versions ({} components, every pair of positions x every pair of {} tokens, with and without a revision), all ordered pairs x 4 operators", two.len(), n, set.len()));
        let toks: Vec<(dewey::Ver, dewey::Ver)> = two.iter().map(|v| (dewey::tokenise(v, LetterWeight::Rank), dewey::tokenise(v, LetterWeight::AsciiLower))).collect();
        let idx: Vec<usize> = (0..two.len()).collect();
        par_items(&run, "C01(f) two-site", &idx, |_, ai, t| {
            let a = &two[*ai];
            for (bi, b) in two.iter().enumerate() {
                t.states += 1;
                t.transitions += 1;
                if let Some(got) = four_verdicts(t, a, b) {
                    judge4(&run, t, a, b, got, &toks[*ai].0, &toks[bi].0, &toks[*ai].1, &toks[bi].1);
                }
                t.nontrivial += 1;
            }
            t.outcome("two-site/row");
        });
    }
    // (g) digit runs of every length 1..18 in five digit patterns with 0..3 leading zeros, as a
    // component and as a revision, all ordered pairs
    {
        let mut runs: Vec<String> = vec![];
        for len in 1..=18usize {
            let pats = ["1".repeat(len), "9".repeat(len), format!("1{}", "0".repeat(len - 1)), "12345678901234567890"[..len].to_string(), format!("{}8", "9".repeat(len - 1))];
            for p in pats {
                for z in 0..=3usize {
                    if z + len <= 18 {
                        runs.push(format!("{}{}", "0".repeat(z), p));
                    }
                }
            }
        }
        runs.sort();
        runs.dedup();
        run.bound(format!("(g) {} digit runs (lengths 1..18, five digit patterns, 0..3 leading zeros) as component and as revision, all ordered pairs", runs.len()));
        par_items(&run, "C01(g) digit runs", &runs, |_, a, t| {
            for b in &runs {
                t.states += 1;
                t.transitions += 2;
                both_placements(&run, t, &format!("1.{}", a), &format!("1.{}", b));
                both_placements(&run, t, &format!("2nb{}", a), &format!("2nb{}", b));
            }
        });
    }
    // (g2) small values behind long runs of zeros: a digit run is its numeric value however many
    // digits spell it (runs of 16..301 digits whose value stays far below the 18-digit domain)
    {
        let mut runs: Vec<String> = vec![];
        for v in ["0", "1", "2", "9", "10", "99", "123456789"] {
            runs.push(v.to_string());
            for z in [15usize, 16, 17, 18, 19, 20, 21, 22, 24, 31, 32, 33, 35, 36, 37, 53, 54, 55, 63, 64, 65, 127, 128, 129, 255, 256, 257, 300] {
                runs.push(format!("{}{}", "0".repeat(z), v));
            }
        }
        run.bound(format!("(g2) {} zero-padded digit runs (7 values behind 15..300 zeros) as component and as revision, all ordered pairs", runs.len()));
        par_items(&run, "C01(g2) padded digit runs", &runs, |_, a, t| {
            for b in &runs {
                t.states += 1;
                t.transitions += 2;
                both_placements(&run, t, &format!("1.{}", a), &format!("1.{}", b));
                both_placements(&run, t, &format!("2nb{}", a), &format!("2nb{}", b));
            }
        });
    }
    // (e) character sweep: every ASCII character and 64 non-ASCII characters chosen per Unicode
    // behaviour (case mappings into ASCII, digits of other scripts, every white-space character,
    // combining marks, 2/3/4-byte encodings) in seven positions of a version, against eight probes
    let mut chars: Vec<char> = mc_core::chars::all().into_iter().filter(|c| !"-<>{}=".contains(*c)).collect();
    chars.extend(['\0', '\n', '\r']);
    run.bound(format!("(e) {} characters x 47 version shapes (7 short, every offset of a 17-character digit string, paddings of 8..300 characters) x 8 probes x 4 operators x 2 placements; '-' and '=' in the bound only", chars.len()));
    {
        // '-' and '=' cannot occur in a package's version (the name splits at the last '-') but
        // they can in a bound, where they are "other characters": ignored
        let mut t = Tally::new();
        for x in ['-', '='] {
            let mut shapes = vec![format!("1{}1", x), format!("1{}", x), format!("1.{}{}", x, x), format!("1{}nb2", x), format!("1nb{}", x), format!("1{}alpha", x), format!("1.0{}0", x)];
            if x == '-' {
                shapes.push("-1".into());
                shapes.push("-".into());
            }
            for b in &shapes {
                for a in ["", "1", "1.0", "1.1", "1a", "1nb1", "1nb2", "2", "11", "1.0.0", "0", "1alpha"] {
                    t.states += 1;
                    t.transitions += 1;
                    let (ra, rb) = (dewey::tokenise(a, LetterWeight::Rank), dewey::tokenise(b, LetterWeight::Rank));
                    let (aa, ab) = (dewey::tokenise(a, LetterWeight::AsciiLower), dewey::tokenise(b, LetterWeight::AsciiLower));
                    if let Some(got) = four_verdicts(&mut t, a, b) {
                        judge4(&run, &mut t, a, b, got, &ra, &rb, &aa, &ab);
                    }
                }
            }
        }
        run.merge(t);
    }
    par_items(&run, "C01(e) character sweep", &chars, |_, c, t| {
        let mut shapes = vec![
            format!("{}", c), format!("1{}", c), format!("{}1", c), format!("1{}1", c), format!("1.{}{}", c, c), format!("1{}nb2", c), format!("1nb{}", c),
        ];
        // the character at every offset of a 17-character digit string (word-at-a-time scanners),
        // between single digits, and after paddings of 8..300 characters (length-dependent paths)
        for pos in 0..=16usize {
            shapes.push(format!("{}{}{}", "1".repeat(pos), c, "2".repeat(16 - pos)));
        }
        shapes.push(format!("1{}2{}3{}4{}5", c, c, c, c));
        shapes.push(format!("2024011{}5", c));
        shapes.push(format!("12{}30{}45", c, c));
        for n in [8usize, 31, 33, 70, 300] {
            shapes.push(format!("{}{}", "1.".repeat(n), c));
            shapes.push(format!("{}{}", c, ".1".repeat(n)));
            shapes.push(format!("{}{}{}", "0.".repeat(n / 2), c, ".0".repeat(n / 2)));
            shapes.push(format!("{}{}1", "a".repeat(n), c));
        }
        for v in &shapes {
            for p in ["", "1", "1.0", "1a", "1nb1", "2", "1.1", "0"] {
                t.states += 1;
                t.transitions += 1;
                both_placements(&run, t, v, p);
            }
        }
    });
    // (i) best_match between candidates whose bases differ (in length, in the number of '-'):
    // only the versions decide, whatever stands before the last '-'
    {
        let bases = ["p", "pq", "p-q", "foo", "barbaz", "a-b-c", "x1", "lib-1"];
        let vers: Vec<String> = token_strings(2);
        let star = Pattern::new("*").unwrap_or_else(|e| run.fault(&format!("*: {}", e)));
        let mut names: Vec<(String, usize)> = vec![];
        for (vi, v) in vers.iter().enumerate() {
            if !run.thorough() && vi % 3 != 0 {
                continue;
            }
            for b in bases {
                names.push((format!("{}-{}", b, v), vi));
            }
        }
        let rank: Vec<Ver> = vers.iter().map(|v| dewey::tokenise(v, LetterWeight::Rank)).collect();
        let ascii: Vec<Ver> = vers.iter().map(|v| dewey::tokenise(v, LetterWeight::AsciiLower)).collect();
        run.bound(format!("(i) best_match across bases: {} names (8 bases of different lengths x versions of <= 2 tokens), all unordered pairs under '*'", names.len()));
        let idx: Vec<usize> = (0..names.len()).collect();
        par_items(&run, "C01(i) cross-base best_match", &idx, |_, i, t| {
            for j in *i..names.len() {
                let ((n1, v1), (n2, v2)) = (&names[*i], &names[j]);
                t.states += 1;
                t.transitions += 1;
                t.evals += 1;
                t.validated += 1;
                let want = best_expected(n1, n2, &rank[*v1], &rank[*v2]);
                match guard(|| star.best_match(n1, n2).map(|s| s.to_string())) {
                    Ok(Some(g)) if g == want => {
                        if v1 != v2 {
                            t.nontrivial += 1;
                        }
                    }
                    Ok(g) => {
                        let variant = best_expected(n1, n2, &ascii[*v1], &ascii[*v2]);
                        if g.as_deref() == Some(variant) && run.finding_open(FINDING) {
                            t.known(FINDING, || json!({"pattern": "*", "pkg1": n1, "pkg2": n2}));
                        } else {
                            t.violation(Violation::new("best", json!({"pattern": "*", "pkg1": n1, "pkg2": n2}), json!(want), json!(g), "best_match does not return the candidate the dewey rule ranks highest"));
                        }
                    }
                    Err(m) => t.violation(Violation::new("best", json!({"pattern": "*", "pkg1": n1, "pkg2": n2}), json!(want), json!(format!("panic: {}", m)), "best_match panicked")),
                }
            }
            t.outcome("cross-base/row");
        });
    }
    // (j) one name buffer rewritten in place between calls (same address, same length, other
    // content), against patterns compiled once: the verdict depends on the content only
    {
        let mut t = Tally::new();
        let vers: Vec<String> = token_strings(2);
        let mut by_len: std::collections::BTreeMap<usize, Vec<&String>> = std::collections::BTreeMap::new();
        for v in &vers {
            by_len.entry(v.len()).or_default().push(v);
        }
        let mut calls = 0u64;
        for bound in ["1.0", "1a", "2nb1"] {
            let pats: Vec<Pattern> = OPS.iter().map(|op| Pattern::new(&format!("p{}{}", op_name(*op), bound)).unwrap_or_else(|e| run.fault(&format!("{}", e)))).collect();
            let (rb, ab) = (dewey::tokenise(bound, LetterWeight::Rank), dewey::tokenise(bound, LetterWeight::AsciiLower));
            for (len, group) in &by_len {
                let mut buf = String::with_capacity(len + 8);
                let mut prev: Option<&String> = None;
                for v in group.iter().chain(group.iter().rev()) {
                    buf.clear();
                    buf.push_str("p-");
                    buf.push_str(v);
                    t.states += 1;
                    t.transitions += 1;
                    t.evals += 4;
                    t.validated += 4;
                    calls += 1;
                    let before = t.violations.len();
                    match guard(|| [pats[0].matches(&buf), pats[1].matches(&buf), pats[2].matches(&buf), pats[3].matches(&buf)]) {
                        Ok(got) => judge4(&run, &mut t, v, bound, got, &dewey::tokenise(v, LetterWeight::Rank), &rb, &dewey::tokenise(v, LetterWeight::AsciiLower), &ab),
                        Err(m) => t.violation(Violation::new("cmp", cmp_case(v, bound, Op::Gt), json!("a verdict"), json!(format!("panic: {}", m)), "matching panicked")),
                    }
                    // recorded with the buffer's previous content, so that the replay makes the same two calls
                    for viol in t.violations[before..].iter_mut() {
                        viol.kind = "reuse-cmp".to_string();
                        viol.case = json!({"bound": bound, "previous_content": prev, "content": v, "note": "one name buffer, rewritten in place between the two matches"});
                    }
                    prev = Some(*v);
                }
            }
        }
        run.bound(format!("(j) buffer reuse: {} matches of names written one after the other into one buffer (grouped by length), 3 bounds x 4 operators compiled once", calls));
        run.merge(t);
    }
    // (k) two versions that differ in exactly one component, at every index 1..=72: k one-component
    // tokens ('pl' = 0), then one of {alpha, beta, rc, pl, .}, then a common tail - in all ordered
    // pairs of the differing token, with and without a revision
    {
        let mut t = Tally::new();
        let xs = ["alpha", "beta", "rc", "pl", ".", "_", "pre"];
        for k in 0..=run.pick(72, 140) {
            for tail in ["plplpl", "", "nb2"] {
                let vs: Vec<String> = xs.iter().map(|x| format!("1{}{}{}", "pl".repeat(k), x, tail)).collect();
                for a in &vs {
                    for b in &vs {
                        t.states += 1;
                        t.transitions += 1;
                        let (ra, rb) = (dewey::tokenise(a, LetterWeight::Rank), dewey::tokenise(b, LetterWeight::Rank));
                        if let Some(got) = four_verdicts(&mut t, a, b) {
                            judge4(&run, &mut t, a, b, got, &ra, &rb, &ra, &rb);
                        }
                        if ra.comps != rb.comps {
                            t.nontrivial += 1;
                        }
                    }
                }
            }
        }
        run.bound(format!("(k) single difference at every component index 1..={}: 7 one-component tokens x 3 tails, all ordered pairs", run.pick(72, 140) + 1));
        run.merge(t);
    }
    // (h) long common prefixes: two versions that agree on 15..100 leading bytes and then end in
    // different short tails (every single token, and modifier / letter / number pairs that share
    // leading letters), through the four operators and through best_match
    {
        let mut tails: Vec<String> = TOKENS.iter().map(|s| s.to_string()).collect();
        // what a version looks like when a file name was passed for a package name
        for x in [".tgz", ".tbz", ".txz", ".tzst", ".tar.gz", ".tar", ".orig", ".rej", "~", ".sig", ".tmp", ".tgz.sig", "tgz", "tbz"] {
            tails.push(x.to_string());
        }
        for x in ["b", "beta", "be", "bet", "a", "alpha", "al", "r", "rc", "rc1", "p", "pl", "pre", "pr", "n", "nb", "nb1", "nb2", "0b", "0beta", "0beta1", "1a", "1alpha", "", "0", "00", "1", "2", "10", ".", ".0", ".1", "_", "x", "z"] {
            tails.push(x.to_string());
        }
        tails.sort();
        tails.dedup();
        let mut prefixes: Vec<String> = vec![];
        for n in [15usize, 16, 17, 31, 32, 33, 64, 100] {
            prefixes.push("1.0.".repeat(n / 4 + 1)[..n].to_string());
            prefixes.push("1a2b.3rc".repeat(n / 8 + 1)[..n].to_string());
            prefixes.push(format!("{}0", "9".repeat(n - 1).replace("9999", "9.99")));
        }
        run.bound(format!("(h) long common prefixes: {} prefixes of 15..100 bytes x all ordered pairs of {} tails, 4 operators and best_match", prefixes.len(), tails.len()));
        let star = Pattern::new("p-*").unwrap_or_else(|e| run.fault(&format!("p-*: {}", e)));
        par_items(&run, "C01(h) common prefixes", &prefixes, |_, pre, t| {
            let pool = Pool::new(tails.iter().map(|x| format!("{}{}", pre, x)).collect());
            for i in 0..pool.strs.len() {
                for j in 0..pool.strs.len() {
                    t.states += 1;
                    t.transitions += 1;
                    if let Some(got) = four_verdicts(t, &pool.strs[i], &pool.strs[j]) {
                        judge4(&run, t, &pool.strs[i], &pool.strs[j], got, &pool.rank[i], &pool.rank[j], &pool.ascii[i], &pool.ascii[j]);
                    }
                }
                sweep_best(&run, t, &star, &pool, i, i, pool.strs.len());
                t.nontrivial += 1;
            }
            t.outcome("common-prefix/row");
        });
    }
    run.finish();
}
