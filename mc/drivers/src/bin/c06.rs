//! C06 - best_match returns the matching candidate with the highest version;
//! every order of pairwise reduction over a candidate list yields the same
//! winner.

use mc_core::model::dewey::{self, LetterWeight};
use mc_core::model::pattern as mpat;
use mc_core::par::par_items;
use mc_core::seqs;
use mc_core::{guard, Run, Tally, Violation};
use pkgsrc::Pattern;
use serde_json::{json, Value};
use std::cmp::Ordering;

const FINDING: &str = "letter-weight-ascii";

const POOL: [&str; 31] = [
    "p1", "p2", "9base", "p10",
    "p-1", "p-1.0", "p-1_0", "p-1.00", "p-1.0nb1", "p-2rc1", "p-2", "p-10", "q-1", "q-2", "q-0",
    "r-5", "p", "pq-3", "p-1.0a", "p-1.0.5", "p-a-2", "p-b-1", "p-b-2", "p-1nb2", "p+-2", "p-0a-2",
    "p-1pre1", "p-1pl1", "p-2.99999999999999999999", "p-2.rc1", "p-2.beta3",
];

const PATTERNS: [&str; 10] = [
    "p>=1", "p>1<2", "p-[0-9]*", "{p,q}-[0-9]*", "{p,q}>=1", "*", "p-1", "q<1", "p-*-[0-9]*", "p*-[0-9]*",
];

fn version_of(name: &str) -> &str {
    dewey::split_name(name).map(|(_, v)| v).unwrap_or("")
}

/// is `a` strictly better than `b` (both matching candidates)?
fn better(a: &str, b: &str, lw: LetterWeight) -> bool {
    let (va, vb) = (dewey::tokenise(version_of(a), lw), dewey::tokenise(version_of(b), lw));
    match dewey::cmp(&va, &vb) {
        Ordering::Greater => true,
        Ordering::Less => false,
        Ordering::Equal => a.as_bytes() < b.as_bytes(),
    }
}

fn model_winner<'a>(pat: &str, list: &[&'a str], lw: LetterWeight) -> Option<&'a str> {
    let mut best: Option<&str> = None;
    for c in list {
        if mpat::matches(pat, c, lw) != Some(true) {
            continue;
        }
        best = match best {
            None => Some(c),
            Some(b) => Some(if better(c, b, lw) { c } else { b }),
        };
    }
    best
}

/// Results of every binary reduction tree over `seq`, by real calls.
fn all_trees<'a>(p: &Pattern, seq: &[&'a str], calls: &mut u64) -> Vec<Option<&'a str>> {
    if seq.len() == 1 {
        *calls += 1;
        return vec![p.best_match(seq[0], seq[0])];
    }
    let mut out = vec![];
    for k in 1..seq.len() {
        let ls = all_trees(p, &seq[..k], calls);
        let rs = all_trees(p, &seq[k..], calls);
        for l in &ls {
            for r in &rs {
                out.push(match (l, r) {
                    (None, x) => *x,
                    (x, None) => *x,
                    (Some(a), Some(b)) => {
                        *calls += 1;
                        p.best_match(a, b)
                    }
                });
            }
        }
    }
    out
}

fn fold_left<'a>(p: &Pattern, l: &[&'a str]) -> Option<&'a str> {
    let mut acc = p.best_match(l[0], l[0]);
    for x in &l[1..] {
        acc = match (acc, p.best_match(x, x)) {
            (None, r) => r,
            (a, None) => a,
            (Some(a), Some(b)) => p.best_match(a, b),
        };
    }
    acc
}
fn fold_right<'a>(p: &Pattern, l: &[&'a str]) -> Option<&'a str> {
    let mut acc = p.best_match(l[l.len() - 1], l[l.len() - 1]);
    for x in l[..l.len() - 1].iter().rev() {
        acc = match (p.best_match(x, x), acc) {
            (None, r) => r,
            (a, None) => a,
            (Some(a), Some(b)) => p.best_match(a, b),
        };
    }
    acc
}
fn balanced<'a>(p: &Pattern, l: &[&'a str]) -> Option<&'a str> {
    if l.len() == 1 {
        return p.best_match(l[0], l[0]);
    }
    let (a, b) = l.split_at(l.len() / 2);
    match (balanced(p, a), balanced(p, b)) {
        (None, r) => r,
        (a, None) => a,
        (Some(a), Some(b)) => p.best_match(a, b),
    }
}

fn check_long(run: &Run, t: &mut Tally, ps: &str, p: &Pattern, list: &[&str]) {
    t.states += 1;
    t.evals += 3;
    t.validated += 3;
    t.transitions += 3 * list.len() as u64;
    let want = model_winner(ps, list, LetterWeight::Rank);
    let alt = model_winner(ps, list, LetterWeight::AsciiLower);
    let got = guard(|| [fold_left(p, list), fold_right(p, list), balanced(p, list)]);
    match got {
        Ok(g) if g.iter().all(|x| *x == want) => t.outcome("long-list/ok"),
        Ok(g) if g.iter().all(|x| *x == alt) && run.finding_open(FINDING) => t.known(FINDING, || json!({"pattern": ps, "list": list})),
        other => t.violation(Violation::new("list", json!({"pattern": ps, "list": list}), json!(want), json!(format!("{:?}", other)), "long candidate list: reduction winner differs from the model or between reduction orders")),
    }
    t.nontrivial += 1;
}

fn check_pair(run: &Run, t: &mut Tally, ps: &str, p: &Pattern, a: &str, b: &str) {
    t.evals += 1;
    t.validated += 1;
    let case = json!({"pattern": ps, "pkg1": a, "pkg2": b});
    let r = guard(|| (p.best_match(a, b), p.best_match(b, a), p.matches(a), p.matches(b)));
    let (ab, ba, ma, mb) = match r {
        Ok(x) => x,
        Err(m) => {
            t.violation(Violation::new("pair", case, json!("returns"), json!(format!("panic: {}", m)), "best_match panicked"));
            return;
        }
    };
    let mut fail = |what: &str, exp: Value, obs: Value| {
        t.violation(Violation::new("pair", case.clone(), exp, obs, what));
    };
    if ab.is_none() != (!ma && !mb) {
        fail("None exactly when neither name matches", json!({"none": !ma && !mb}), json!(ab));
        return;
    }
    if ab != ba {
        fail("result must not depend on argument order", json!(ab), json!(ba));
        return;
    }
    if let Some(w) = ab {
        if w != a && w != b {
            fail("result must be one of the two names", json!([a, b]), json!(w));
            return;
        }
        if !guard(|| p.matches(w)).unwrap_or(false) {
            fail("result must match the pattern", json!(true), json!(false));
            return;
        }
    }
    let want = model_winner(ps, &[a, b], LetterWeight::Rank);
    if ab == want {
        t.outcome(match (ma, mb) {
            (false, false) => "pair/none",
            (true, true) => "pair/both-match",
            _ => "pair/one-matches",
        });
        if ma && mb && a != b {
            t.nontrivial += 1;
        }
        return;
    }
    let alt = model_winner(ps, &[a, b], LetterWeight::AsciiLower);
    if ab == alt && run.finding_open(FINDING) {
        t.known(FINDING, || case.clone());
    } else {
        fail("no matching candidate may have a strictly higher version (ties: byte-wise smaller name)", json!(want), json!(ab));
    }
}

/// Two candidates that are slices of one buffer: prefixes (same start address) or suffixes (same
/// end).  Recorded with the buffer and the offsets so that the replay shares memory the same way.
fn check_alias(run: &Run, t: &mut Tally, ps: &str, p: &Pattern, buf: &str, i: usize, j: usize, prefix: bool) {
    let before = t.violations.len();
    if prefix {
        check_pair(run, t, ps, p, &buf[..i], &buf[..j]);
    } else {
        check_pair(run, t, ps, p, &buf[i..], &buf[j..]);
    }
    for v in t.violations[before..].iter_mut() {
        v.kind = "alias".to_string();
        v.case = json!({"pattern": ps, "buffer": buf, "i": i, "j": j, "slices": if prefix { "prefixes" } else { "suffixes" }, "pkg1": v.case["pkg1"], "pkg2": v.case["pkg2"]});
    }
}

/// Two calls around an in-place rewrite of one buffer: content `n1`, a call, content `n2`
/// (same length, same allocation), another call.  shape bit 0 / bit 1 = the buffer is the
/// first argument in the first / second call.  Both results are judged on the contents.
fn check_reuse(run: &Run, t: &mut Tally, ps: &str, p: &Pattern, fixed: &str, n1: &str, n2: &str, shape: u8, buf: &mut String) {
    t.evals += 2;
    t.validated += 2;
    let case = || json!({"pattern": ps, "fixed": fixed, "first_content": n1, "second_content": n2, "shape": shape});
    let mut results: Vec<(Option<String>, String)> = vec![];
    for (k, content) in [n1, n2].iter().enumerate() {
        buf.clear();
        buf.push_str(content);
        let buffer_first = shape >> k & 1 == 1;
        let got = guard(|| if buffer_first { p.best_match(buf.as_str(), fixed) } else { p.best_match(fixed, buf.as_str()) }.map(|s| s.to_string()));
        match got {
            Ok(g) => results.push((g, content.to_string())),
            Err(m) => {
                t.violation(Violation::new("reuse", case(), json!("returns"), json!(format!("panic: {}", m)), "best_match panicked"));
                return;
            }
        }
    }
    for (k, (got, content)) in results.iter().enumerate() {
        let want = model_winner(ps, &[fixed, content.as_str()], LetterWeight::Rank);
        if got.as_deref() == want {
            continue;
        }
        let alt = model_winner(ps, &[fixed, content.as_str()], LetterWeight::AsciiLower);
        if got.as_deref() == alt && run.finding_open(FINDING) {
            t.known(FINDING, case);
        } else {
            t.violation(Violation::new("reuse", case(), json!({"call": k + 1, "winner": want}), json!(got), "the result of a call depends on the contents of its arguments only, not on what the same buffer held during an earlier call"));
        }
        return;
    }
    t.outcome("reuse/content-only");
    t.nontrivial += 1;
}

fn check_list(run: &Run, t: &mut Tally, ps: &str, p: &Pattern, list: &[&str]) {
    let case = json!({"pattern": ps, "list": list});
    let mut calls = 0u64;
    let res = match guard(|| all_trees(p, list, &mut calls)) {
        Ok(r) => r,
        Err(m) => {
            t.violation(Violation::new("list", case, json!("returns"), json!(format!("panic: {}", m)), "best_match panicked"));
            return;
        }
    };
    t.evals += res.len() as u64;
    t.validated += res.len() as u64;
    t.transitions += calls;
    let want = model_winner(ps, list, LetterWeight::Rank);
    let distinct: std::collections::BTreeSet<Option<&str>> = res.iter().cloned().collect();
    if distinct.len() > 1 {
        t.violation(Violation::new(
            "list",
            case,
            json!("every reduction order yields the same winner"),
            json!(distinct.iter().collect::<Vec<_>>()),
            "pairwise reduction is route-dependent",
        ));
        return;
    }
    let got = res[0];
    let matching = list.iter().filter(|c| mpat::matches(ps, c, LetterWeight::Rank) == Some(true)).count();
    if got == want {
        t.outcome(match matching {
            0 => "list/none-match",
            1 => "list/one-matches",
            _ => "list/several-match",
        });
        if matching >= 2 {
            t.nontrivial += 1;
        }
        return;
    }
    let alt = model_winner(ps, list, LetterWeight::AsciiLower);
    if got == alt && run.finding_open(FINDING) {
        t.known(FINDING, || case.clone());
    } else {
        t.violation(Violation::new("list", case, json!(want), json!(got), "reduction winner is not the highest matching version"));
    }
}

fn replay(run: &Run, doc: &Value) -> Option<Violation> {
    let c = &doc["case"];
    let ps = c["pattern"].as_str().unwrap_or("");
    let p = Pattern::new(ps).ok()?;
    let mut t = Tally::new();
    match doc["kind"].as_str() {
        Some("alias") => {
            let buf = c["buffer"].as_str().unwrap_or("").to_string();
            let (i, j) = (c["i"].as_u64().unwrap_or(0) as usize, c["j"].as_u64().unwrap_or(0) as usize);
            if i <= buf.len() && j <= buf.len() && buf.is_char_boundary(i) && buf.is_char_boundary(j) {
                check_alias(run, &mut t, ps, &p, &buf, i, j, c["slices"] == "prefixes");
            }
        }
        Some("reuse") => {
            let mut buf = String::with_capacity(64);
            check_reuse(run, &mut t, ps, &p, c["fixed"].as_str().unwrap_or(""), c["first_content"].as_str().unwrap_or(""), c["second_content"].as_str().unwrap_or(""), c["shape"].as_u64().unwrap_or(0) as u8, &mut buf);
        }
        Some("pair") => check_pair(run, &mut t, ps, &p, c["pkg1"].as_str().unwrap_or(""), c["pkg2"].as_str().unwrap_or("")),
        _ => {
            let list: Vec<&str> = c["list"].as_array().map(|a| a.iter().filter_map(|x| x.as_str()).collect()).unwrap_or_default();
            if list.len() > 5 {
                check_long(run, &mut t, ps, &p, &list);
            } else {
                check_list(run, &mut t, ps, &p, &list);
            }
        }
    }
    t.violations.into_iter().next()
}

fn main() {
    let run = Run::from_args("C06");
    if let Some(doc) = run.replay_case() {
        run.finish_replay(replay(&run, doc), replay(&run, doc));
    }
    run.rule(
        "10 patterns (dewey, two-bound, glob, brace+glob, brace+dewey, '*', plain, upper bound) x a \
         31-name pool (four of them without '-') (same base with tied spellings 1/1.0/1_0/1.00, revisions, rc, a second and \
         third base, a name without '-', a letter version): every ordered pair (None iff neither \
         matches; result is one of the two and matches; symmetric; equals the model winner), and \
         every candidate list of <= N names with repetition in every order x every binary \
         reduction tree (leaf x = best_match(x,x), node = best_match of the two winners): all \
         routes must give the model winner. Non-trivial = at least two distinct matching candidates.",
    );
    run.assume("reference order: dewey model + byte-wise smaller name on ties (mc/core/src/model/dewey.rs); pattern membership by the composed pattern model");
    run.assume("digit runs of more than 18 digits are compared as their numeric value only in pairs where at most one run exceeds i64::MAX (exact arithmetic and saturation at any width >= 64 bits agree there); wrapping is taken to be a violation of 'a digit run = its numeric value'");
    let n = run.pick(3, 4);
    run.bound(format!("all {} lists of <= {} candidates x all reduction trees, x {} patterns; all {} ordered pairs per pattern", seqs::count(POOL.len(), n), n, PATTERNS.len(), POOL.len() * POOL.len()));

    let pats: Vec<(String, Pattern)> = PATTERNS
        .iter()
        .map(|s| (s.to_string(), Pattern::new(s).unwrap_or_else(|e| run.fault(&format!("pattern {} does not compile: {}", s, e)))))
        .collect();
    par_items(&run, "C06 pairs", &pats, |_, (ps, p), t| {
        for a in POOL {
            for b in POOL {
                t.states += 1;
                t.transitions += 1;
                check_pair(&run, t, ps, p, a, b);
            }
        }
    });
    for (ps, p) in &pats {
        seqs::par_seqs(&run, "C06 lists", POOL.len(), n, 2, |_| false, |s, t| {
            if s.is_empty() {
                return;
            }
            let list: Vec<&str> = s.iter().map(|i| POOL[*i]).collect();
            check_list(&run, t, ps, p, &list);
            t.sample(run.seed, s.iter().fold(1u64, |a, x| a * 19 + *x as u64), || json!({"pattern": ps, "list": list}));
        });
    }
    // wide pair pool: every version of <= 3 tokens over a 14-token alphabet, and every <= 2-token
    // version followed by a revision suffix with something after its digits; all unordered pairs,
    // both argument orders.  The model verdicts are tabulated once per name; a pair that agrees
    // with the table is done, any other pair goes through check_pair for attribution.
    {
        const TOK: [&str; 14] = ["0", "1", "2", "10", ".", "_", "nb", "a", "b", "rc", "pre", "pl", "alpha", "x"];
        const REV: [&str; 9] = ["nb1", "nb2", "nb1.1", "nb1a", "nb01", "nb1nb2", "nb2.0", "nb", "nb1_1"];
        let mut names: Vec<String> = vec!["p-".to_string()];
        let mut pre = vec![];
        let depth = run.pick(3, 3);
        seqs::dfs(TOK.len(), depth, &mut pre, &|_| false, &mut |q: &[usize]| {
            if q.is_empty() {
                return;
            }
            let v: String = q.iter().map(|i| TOK[*i]).collect();
            if q.len() <= 2 {
                for r in REV {
                    names.push(format!("p-{}{}", v, r));
                }
            }
            names.push(format!("p-{}", v));
        });
        names.sort();
        names.dedup();
        if !run.thorough() {
            // quick tier: every third name of the <= 3-token part, all revision-suffix names
            let mut k = 0usize;
            names.retain(|n| {
                k += 1;
                n.contains("nb") || k % 3 == 0
            });
        }
        let wide: [&str; 2] = ["p-*", "p>=1"];
        run.bound(format!("wide pair pool: {} names (versions of <= {} tokens over {} tokens, revision suffixes with trailing text), all unordered pairs x both argument orders x {} patterns", names.len(), depth, TOK.len(), wide.len()));
        for ps in wide {
            let p = Pattern::new(ps).unwrap_or_else(|e| run.fault(&format!("pattern {} does not compile: {}", ps, e)));
            let toks: Vec<_> = names.iter().map(|n| dewey::tokenise(version_of(n), LetterWeight::Rank)).collect();
            let m: Vec<bool> = names.iter().map(|n| mpat::matches(ps, n, LetterWeight::Rank) == Some(true)).collect();
            let idx: Vec<usize> = (0..names.len()).collect();
            par_items(&run, "C06 wide pairs", &idx, |_, i, t| {
                let a = names[*i].as_str();
                for j in *i..names.len() {
                    let b = names[j].as_str();
                    t.states += 1;
                    t.transitions += 2;
                    let want = match (m[*i], m[j]) {
                        (false, false) => None,
                        (true, false) => Some(a),
                        (false, true) => Some(b),
                        (true, true) => Some(match dewey::cmp(&toks[*i], &toks[j]) {
                            Ordering::Greater => a,
                            Ordering::Less => b,
                            Ordering::Equal => if a.as_bytes() <= b.as_bytes() { a } else { b },
                        }),
                    };
                    let got = guard(|| (p.best_match(a, b), p.best_match(b, a)));
                    if got == Ok((want, want)) {
                        t.evals += 2;
                        t.validated += 2;
                        if m[*i] && m[j] && i != &j {
                            t.nontrivial += 1;
                        }
                        t.outcome("wide-pair/agrees");
                    } else {
                        check_pair(&run, t, ps, &p, a, b);
                    }
                }
            });
        }
    }
    // candidates that share memory: every pair of prefixes and every pair of suffixes of one buffer
    // (same start address / same end, different lengths), and one buffer rewritten in place with
    // other names of the same length between calls (same address and length, different content).
    // The answer depends on the strings' contents only.
    {
        let mut t = Tally::new();
        let alias_pats: Vec<(String, Pattern)> = ["*", "p-*", "p>=1", "{p,pq}-[0-9]*"].iter().map(|s| (s.to_string(), Pattern::new(s).unwrap_or_else(|e| run.fault(&format!("{}: {}", s, e))))).collect();
        for base in ["p-1.0nb1.1", "p-2rc1nb3", "pq-3.10.5", "p-1-2.0nb2", "p-10alpha2nb4", "p-1.0.0.0", "p-2nb10nb2"] {
            let buf = base.to_string();
            for (ps, p) in &alias_pats {
                for i in 0..=buf.len() {
                    for j in 0..=buf.len() {
                        t.states += 1;
                        t.transitions += 2;
                        check_alias(&run, &mut t, ps, p, &buf, i, j, true);
                        check_alias(&run, &mut t, ps, p, &buf, i, j, false);
                    }
                }
            }
        }
        // in-place rewriting: names grouped by length, written one after the other into one buffer
        let mut by_len: std::collections::BTreeMap<usize, Vec<&str>> = std::collections::BTreeMap::new();
        let reuse_names: Vec<String> = POOL.iter().map(|s| s.to_string()).chain(["p-1.1", "p-1.2", "p-2.1", "p-0.9", "q-1.1", "p-1nb1", "p-1nb3", "p-9nb1", "p-1rc1", "p-1pl1", "p-1.a", "p-1.b"].iter().map(|s| s.to_string())).collect();
        for n in &reuse_names {
            by_len.entry(n.len()).or_default().push(n.as_str());
        }
        let mut reuse_calls = 0u64;
        for (ps, p) in &alias_pats {
            for (len, names) in &by_len {
                if names.len() < 2 {
                    continue;
                }
                let mut buf = String::with_capacity(*len + 8);
                for fixed in ["p-1.0", "p-2", "q-1"] {
                    // every ordered pair of contents, the buffer on either side in the call before and
                    // in the call after the rewrite
                    for n1 in names.iter() {
                        for n2 in names.iter() {
                            if n1 == n2 {
                                continue;
                            }
                            for shape in 0..4u8 {
                                t.states += 1;
                                t.transitions += 2;
                                reuse_calls += 2;
                                check_reuse(&run, &mut t, ps, p, fixed, n1, n2, shape, &mut buf);
                            }
                        }
                    }
                }
            }
        }
        run.bound(format!("shared memory: all prefix pairs and suffix pairs of 7 buffers x 4 patterns; {} calls with one buffer rewritten in place between calls", reuse_calls));
        run.merge(t);
    }
    // candidates whose names collide under hand-written 32-bit hashes (a cache of parsed candidates
    // keyed by such a hash returns the other one's version)
    {
        let mut t = Tally::new();
        let star = Pattern::new("*").unwrap_or_else(|e| run.fault(&format!("*: {}", e)));
        for (a, b, _) in mc_core::chars::HASH_COLLISIONS {
            for (va, vb) in [("1.0", "2.0"), ("2.0", "1.0"), ("1.0", "1.0"), ("1.0nb1", "1.0")] {
                let (x, y) = (format!("{}-{}", a, va), format!("{}-{}", b, vb));
                t.states += 1;
                t.transitions += 4;
                check_pair(&run, &mut t, "*", &star, &x, &y);
                check_pair(&run, &mut t, "*", &star, &y, &x);
            }
        }
        run.bound("colliding names: 36 pairs of bases colliding under common 32-bit hashes x 4 version pairs, both orders, twice in a row");
        run.merge(t);
    }
    // numbers beyond the 18-digit domain of the comparison rule, restricted to pairs whose order
    // every faithful reading gives alike: at most one of the two reaches i64::MAX (so saturating
    // at any width >= 64 bits, or exact arithmetic, agree).  d x 10^k and neighbours, 17..24 digits.
    {
        let mut nums: Vec<String> = vec![];
        for k in 16..=23usize {
            for d in [1u32, 2, 3, 4, 5, 6, 7, 8, 9, 12, 18, 20, 25, 27, 33, 41, 46, 50, 62, 64, 65, 77, 82, 83, 90, 99] {
                let base = format!("{}{}", d, "0".repeat(k));
                nums.push(base.clone());
                nums.push(format!("{}{}1", d, "0".repeat(k - 1)));
                nums.push(format!("{}{}", d - 1 + 0, "9".repeat(k)).trim_start_matches('0').to_string());
            }
        }
        // small values written with up to 30 leading zeros
        for z in [17usize, 18, 19, 20, 23, 30] {
            for v in ["0", "1", "2", "7", "10", "123456789"] {
                nums.push(format!("{}{}", "0".repeat(z), v));
            }
        }
        // modifier words and small numbers as partners: a huge component against alpha / beta / rc /
        // pre / pl / a letter / nothing at the same index
        for m in ["alpha", "beta", "rc1", "pre2", "pl", "alpha9223372036854775807"] {
            nums.push(m.to_string());
        }
        nums.push("9223372036854775807".to_string());
        nums.push("9223372036854775806".to_string());
        nums.push("9223372036854775808".to_string());
        nums.retain(|n| !n.is_empty());
        nums.sort();
        nums.dedup();
        let strip = |n: &str| -> String { let t = n.trim_start_matches('0'); if t.is_empty() { "0".to_string() } else { t.to_string() } };
        let big = |n: &str| { let d = n.bytes().all(|b| b.is_ascii_digit()); let n = strip(n); d && (n.len() > 19 || (n.len() == 19 && n.as_str() >= "9223372036854775807")) };
        let p = Pattern::new("p-*").unwrap_or_else(|e| run.fault(&format!("p-*: {}", e)));
        run.bound(format!("large numbers: {} numbers of 17..26 digits (d x 10^k and neighbours), all pairs in which at most one exceeds i64::MAX, as a version component (those that fit an i64 also as the revision), both argument orders", nums.len()));
        let idx: Vec<usize> = (0..nums.len()).collect();
        par_items(&run, "C06 large numbers", &idx, |_, i, t| {
            for j in 0..nums.len() {
                let (x, y) = (&nums[*i], &nums[j]);
                if big(x) && big(y) {
                    continue;
                }
              for as_revision in [false, true] {
                let digits = |n: &str| n.bytes().all(|b| b.is_ascii_digit());
                // as the revision only numbers that fit: what a revision beyond i64 counts as is open
                if as_revision && !(digits(x) && digits(y) && !big(x) && !big(y)) {
                    continue;
                }
                let (a, b) = if as_revision { (format!("p-1.0nb{}", x), format!("p-1.0nb{}", y)) } else { (format!("p-1.{}", x), format!("p-1.{}", y)) };
                // the reference order saturates at i64::MAX; with at most one component beyond it, that
                // is the numeric order
                let numeric = dewey::cmp(&dewey::tokenise(version_of(&a), LetterWeight::Rank), &dewey::tokenise(version_of(&b), LetterWeight::Rank));
                let want = match numeric {
                    Ordering::Greater => a.as_str(),
                    Ordering::Less => b.as_str(),
                    // equal values in different spellings: the byte-wise smaller name
                    Ordering::Equal => if a.as_bytes() <= b.as_bytes() { a.as_str() } else { b.as_str() },
                };
                t.states += 1;
                t.transitions += 2;
                t.evals += 2;
                t.validated += 2;
                match guard(|| (p.best_match(&a, &b), p.best_match(&b, &a))) {
                    Ok((Some(g1), Some(g2))) if g1 == want && g2 == want => {
                        t.outcome("large-number/agrees");
                        if big(x) != big(y) {
                            t.nontrivial += 1;
                        }
                    }
                    other => t.violation(Violation::new("pair", json!({"pattern": "p-*", "pkg1": a, "pkg2": b}), json!(want), json!(format!("{:?}", other)), "a digit run is its numeric value: the candidate with the numerically larger component wins")),
                }
              }
            }
        });
    }
    // several revisions in one version: every version of <= 4 tokens over {1, 2, nb1, nb2, nb3, '.',
    // '_'} against itself extended by one or two more tokens (the last 'nb' sets the revision,
    // wherever the two candidates begin to differ)
    {
        const TK: [&str; 7] = ["1", "2", "nb1", "nb2", "nb3", ".", "_"];
        let mut stems: Vec<String> = vec![];
        let mut cur: Vec<String> = vec!["".to_string()];
        for _ in 0..4 {
            let mut next = vec![];
            for c in &cur {
                for tk in TK {
                    next.push(format!("{}{}", c, tk));
                }
            }
            stems.extend(next.iter().cloned());
            cur = next;
        }
        let mut ext: Vec<String> = TK.iter().map(|x| x.to_string()).collect();
        for a in TK {
            for b in TK {
                ext.push(format!("{}{}", a, b));
            }
        }
        let star = Pattern::new("p-*").unwrap_or_else(|e| run.fault(&format!("p-*: {}", e)));
        run.bound(format!("several revisions: {} versions of <= 4 tokens over {:?}, each against itself extended by {} one- and two-token tails, both argument orders", stems.len(), TK, ext.len()));
        par_items(&run, "C06 several revisions", &stems, |_, x, t| {
            let a = format!("p-1{}", x);
            for e in &ext {
                let b = format!("p-1{}{}", x, e);
                t.states += 1;
                t.transitions += 2;
                check_pair(&run, t, "p-*", &star, &a, &b);
            }
        });
    }
    // scale: long candidate lists (rotations of the pool, 8..64 names) reduced left-to-right,
    // right-to-left and as a balanced tree
    run.bound("scale: for each pattern, every rotation and its reversal of pool-derived lists of 8, 16, 27 and 64 candidates, reduced left-to-right, right-to-left and as a balanced tree");
    let mut t = Tally::new();
    for (ps, p) in &pats {
        for len in [8usize, 16, 27, 64] {
            for rot in 0..POOL.len() {
                for rev in [false, true] {
                    let mut list: Vec<&str> = (0..len).map(|i| POOL[(rot + i * 5) % POOL.len()]).collect();
                    if rev {
                        list.reverse();
                    }
                    check_long(&run, &mut t, ps, p, &list);
                }
            }
        }
    }
    run.merge(t);
    run.finish();
}
