//! C20 - package database iteration lists each installed package once,
//! correctly split; metadata tables are consistent.

use mc_core::par::par_items;
use mc_core::seqs;
use mc_core::{guard, Run, Tally, Violation};
use pkgsrc::pkgdb::PkgDB;
use pkgsrc::{Metadata, MetadataEntry};
use serde_json::{json, Value};
use std::collections::BTreeMap;
use std::path::Path;

const NAMES: [&str; 12] = ["a-1", "a-b-1.0", "a-1.0nb2", "a-b-c-2nb10", "x-y-0", "nb-1nb1", "p5-Foo-Bar-0.01", "lib_x-2024.01.02", "q-1-2", "mktool-1.3-rc2", "foo-bar", "tex-lm-2.004-doc"];
const MANDATORY: [&str; 3] = ["+COMMENT", "+CONTENTS", "+DESC"];
const FILES: [&str; 14] = [
    "+BUILD_INFO", "+BUILD_VERSION", "+COMMENT", "+CONTENTS", "+DEINSTALL", "+DESC", "+DISPLAY", "+INSTALL", "+INSTALLED_INFO",
    "+MTREE_DIRS", "+PRESERVE", "+REQUIRED_BY", "+SIZE_ALL", "+SIZE_PKG",
];

fn meta_entry(i: usize) -> MetadataEntry {
    match i {
        0 => MetadataEntry::BuildInfo,
        1 => MetadataEntry::BuildVersion,
        2 => MetadataEntry::Comment,
        3 => MetadataEntry::Contents,
        4 => MetadataEntry::DeInstall,
        5 => MetadataEntry::Desc,
        6 => MetadataEntry::Display,
        7 => MetadataEntry::Install,
        8 => MetadataEntry::InstalledInfo,
        9 => MetadataEntry::MtreeDirs,
        10 => MetadataEntry::Preserve,
        11 => MetadataEntry::RequiredBy,
        12 => MetadataEntry::SizeAll,
        _ => MetadataEntry::SizePkg,
    }
}

/// A layout: for each package directory (name index, subset mask of the three
/// mandatory files, extra-files flag), plus stray plain files.
#[derive(Clone, Debug)]
struct Layout {
    dirs: Vec<(usize, u8, bool)>,
    stray: u8,
}

fn layout_json(l: &Layout) -> Value {
    json!({"dirs": l.dirs.iter().map(|(n, m, e)| json!({"name": NAMES[*n], "mandatory_mask": m, "extra_files": e})).collect::<Vec<_>>(), "stray": l.stray})
}

fn content(dir: &str, file: &str) -> String {
    if file == "+CONTENTS" {
        // a well-formed packing list that names another package, another display file and a prefix: the
        // database is the directory tree, not what the files inside say
        return format!("@name other-9.9nb1\n@display +DESC\n@cwd /usr/pkg\n@pkgdep dep>=1\nbin/{}\n@comment {} of {}\n", dir.replace('/', "_"), file, dir);
    }
    format!("{} of {}\nsecond line\n", file, dir)
}

/// In layouts with stray bit 2 set, one mandatory file per directory exists but
/// is empty (a directory "contains" a file whether or not it has content).
fn content_of(l: &Layout, n: usize, file: &str) -> String {
    if l.stray & 2 == 2 && MANDATORY[n % 3] == file {
        String::new()
    } else {
        content(NAMES[n], file)
    }
}

fn materialise(root: &Path, l: &Layout) -> std::io::Result<()> {
    std::fs::create_dir_all(root)?;
    for (n, mask, extra) in &l.dirs {
        let d = root.join(NAMES[*n]);
        std::fs::create_dir_all(&d)?;
        for (k, f) in MANDATORY.iter().enumerate() {
            if mask >> k & 1 == 1 {
                std::fs::write(d.join(f), content_of(l, *n, f))?;
            }
        }
        if *extra {
            for f in ["+BUILD_INFO", "+SIZE_PKG", "+REQUIRED_BY"] {
                std::fs::write(d.join(f), content(NAMES[*n], f))?;
            }
            std::fs::write(d.join("not-a-metadata-file"), b"x")?;
        }
    }
    if l.stray & 1 == 1 {
        std::fs::write(root.join("pkgdb.byfile.db"), b"db")?;
    }
    if l.stray & 1 == 1 {
        // entries that cannot be stat'ed: they are neither packages nor a reason to stop
        for n in ["000-dangling-1", "mmm-dangling-5", "zzz-dangling-9"] {
            std::os::unix::fs::symlink("does-not-exist", root.join(n))?;
        }
    }
    if l.stray & 2 == 2 {
        // a named pipe in the database directory is not a sub-directory
        mc_drivers::mkfifo(&root.join("pipe-1.0"))?;
        std::fs::write(root.join("pkg-vulnerabilities"), b"vulns")?;
        std::fs::write(root.join("z-9"), b"a plain file that looks like a package name")?;
    }
    Ok(())
}

fn check_layout(t: &mut Tally, scratch: &Path, id: usize, l: &Layout) {
    t.evals += 1;
    t.validated += 1;
    let root = scratch.join(format!("db{}", id));
    let _ = std::fs::remove_dir_all(&root);
    if materialise(&root, l).is_err() {
        mc_core::run::machinery_fault("cannot build the scratch database");
    }
    // expected: complete directories, each once
    let mut want: BTreeMap<String, (String, String, u8, bool)> = BTreeMap::new();
    for (n, mask, extra) in &l.dirs {
        if *mask == 7 {
            let name = NAMES[*n];
            let i = name.rfind('-').unwrap();
            want.insert(name.to_string(), (name[..i].to_string(), name[i + 1..].to_string(), *mask, *extra));
        }
    }
    let got = guard(|| {
        let db = PkgDB::open(&root).map_err(|e| e.to_string())?;
        let mut seen: Vec<(String, String, String, Vec<Result<String, String>>)> = vec![];
        for p in db {
            // an iterator may report an entry it cannot examine (a dangling link) as an Err item and go on
            let Ok(p) = p else { continue };
            let reads: Vec<Result<String, String>> = (0..14).map(|i| p.read_metadata(meta_entry(i)).map_err(|e| e.kind().to_string())).collect();
            seen.push((p.pkgname().clone(), p.pkgbase().clone(), p.pkgversion().clone(), reads));
        }
        Ok::<_, String>(seen)
    });
    // (the tree stays until the iterator's other methods have been compared with next())
    let root2 = root.clone();
    let seen = match got {
        Ok(Ok(s)) => s,
        Ok(Err(e)) => {
            let _ = std::fs::remove_dir_all(&root);
            t.violation(Violation::new("layout", layout_json(l), json!("iteration succeeds"), json!(e), "opening or iterating the database failed"));
            return;
        }
        Err(m) => {
            let _ = std::fs::remove_dir_all(&root);
            t.violation(Violation::new("layout", layout_json(l), json!("returns"), json!(format!("panic: {}", m)), "package database iteration panicked"));
            return;
        }
    };
    let seen_names: Vec<String> = seen.iter().map(|s| s.0.clone()).collect();
    // the iterator's other methods (count, last, nth, fold, size_hint) see the same packages as next()
    {
        let adapters = guard(|| -> Result<Option<String>, String> {
            let n = seen.len();
            let open = || PkgDB::open(&root2).map_err(|e| e.to_string());
            let count = open()?.filter(|p| p.is_ok()).count();
            let raw_count = open()?.count();
            let errs = open()?.filter(|p| p.is_err()).count();
            if count != n || raw_count != n + errs {
                return Ok(Some(format!("count() = {} (Ok items {}), next() yields {} packages and {} errors", raw_count, count, n, errs)));
            }
            let folded = open()?.fold(0usize, |a, p| a + usize::from(p.is_ok()));
            if folded != n {
                return Ok(Some(format!("fold counts {} packages, next() yields {}", folded, n)));
            }
            let last = open()?.last().and_then(|p| p.ok()).map(|p| p.pkgname().clone());
            if errs == 0 && last.is_some() != (n > 0) {
                return Ok(Some(format!("last() = {:?} with {} packages", last, n)));
            }
            if let Some(l) = &last {
                if !seen_names.contains(l) {
                    return Ok(Some(format!("last() = {:?}, which next() never yields", l)));
                }
            }
            if errs == 0 {
                // the iterator's own nth / skip / step_by (an adapter in between would go through next())
                for k in 0..=n {
                    let nth = open()?.nth(k).and_then(|p| p.ok()).map(|p| p.pkgname().clone());
                    let skipped = open()?.skip(k).next().and_then(|p| p.ok()).map(|p| p.pkgname().clone());
                    for (what, got) in [("nth", &nth), ("skip(k).next()", &skipped)] {
                        if got.is_some() != (k < n) || got.as_ref().map(|x| !seen_names.contains(x)).unwrap_or(false) {
                            return Ok(Some(format!("{} with k = {} gives {:?} with {} packages", what, k, got, n)));
                        }
                    }
                }
                let stepped = open()?.step_by(2).filter(|p| p.is_ok()).count();
                if stepped != (n + 1) / 2 {
                    return Ok(Some(format!("step_by(2) yields {} of {} packages", stepped, n)));
                }
            }
            let (lo, hi) = open()?.size_hint();
            if lo > n + errs || hi.map(|h| h < n + errs).unwrap_or(false) {
                return Ok(Some(format!("size_hint = ({}, {:?}) with {} items", lo, hi, n + errs)));
            }
            Ok(None)
        });
        match adapters {
            Ok(Ok(None)) => {}
            other => {
                t.violation(Violation::new("layout", layout_json(l), json!("count / fold / last / nth / size_hint consistent with next()"), json!(format!("{:?}", other)), "every way of consuming the iterator lists the same packages"));
                let _ = std::fs::remove_dir_all(&root2);
                return;
            }
        }
        let _ = std::fs::remove_dir_all(&root2);
    }
    let mut names: Vec<String> = seen.iter().map(|s| s.0.clone()).collect();
    names.sort();
    let want_names: Vec<String> = want.keys().cloned().collect();
    if names != want_names {
        t.violation(Violation::new("layout", layout_json(l), json!(want_names), json!(names), "the packages yielded must be exactly the sub-directories containing +COMMENT, +CONTENTS and +DESC, each once"));
        return;
    }
    for (name, base, version, reads) in &seen {
        let (wb, wv, _, extra) = &want[name];
        if base != wb || version != wv {
            t.violation(Violation::new("layout", layout_json(l), json!({"name": name, "pkgbase": wb, "pkgversion": wv}), json!({"pkgbase": base, "pkgversion": version}), "pkgbase / pkgversion must be the parts before / after the last '-'"));
            return;
        }
        for (i, r) in reads.iter().enumerate() {
            let f = FILES[i];
            let written = MANDATORY.contains(&f) || (*extra && ["+BUILD_INFO", "+SIZE_PKG", "+REQUIRED_BY"].contains(&f));
            let n = NAMES.iter().position(|x| x == name).unwrap();
            let expect = if MANDATORY.contains(&f) { content_of(l, n, f) } else { content(name, f) };
            let ok = if written { r.as_deref() == Ok(expect.as_str()) } else { r.is_err() };
            if !ok {
                t.violation(Violation::new("layout", layout_json(l), json!({"package": name, "file": f, "written": written}), json!(format!("{:?}", r)), "read_metadata must return that package's '+FILE' content (an error when the file does not exist)"));
                return;
            }
        }
    }
    let incomplete = l.dirs.iter().filter(|d| d.1 != 7).count();
    if incomplete > 0 || l.stray > 0 {
        t.nontrivial += 1;
    }
    t.outcome(match (want.len(), incomplete) {
        (0, 0) => "db/empty-or-strays-only",
        (0, _) => "db/only-incomplete",
        (_, 0) => "db/all-complete",
        _ => "db/mixed",
    });
}

/// A database of complete package directories with arbitrary names (each containing a '-'),
/// one incomplete directory and one stray file: every complete directory is listed once with
/// pkgbase / pkgversion split at the last '-', and its +DESC reads back.
/// Metadata file contents of several shapes, chosen by the name's position: the usual two lines,
/// empty, one byte, no final newline, CR LF line ends, 8191 / 8192 / 8193 bytes, 256 KiB, non-ASCII.
fn shaped_content(k: usize, dir: &str, file: &str) -> String {
    match k % 10 {
        0 => content(dir, file),
        1 => String::new(),
        2 => "x".to_string(),
        3 => format!("{} of {} without a final newline", file, dir),
        4 => format!("{} of {}\r\nsecond\r\n", file, dir),
        5 => "c".repeat(8191),
        6 => format!("{}\n", "d".repeat(8191)),
        7 => "e".repeat(8193),
        8 => format!("{} {}\n", file, "\u{e9}\u{65e5}\u{1f600}".repeat(40)),
        _ => "m\n".repeat(128 * 1024),
    }
}

/// Length and a 64-bit FNV-1a digest of a content (large contents are not kept in memory).
fn digest_of(s: &str) -> String {
    let mut h: u64 = 0xcbf29ce484222325;
    for b in s.as_bytes() {
        h ^= *b as u64;
        h = h.wrapping_mul(0x100000001b3);
    }
    format!("{} bytes, fnv {:016x}", s.len(), h)
}

/// A large database: `n` complete packages with numbered names and contents of every shape,
/// every seventh directory incomplete, stray files in between.
fn check_large(t: &mut Tally, scratch: &Path, n: usize) {
    t.evals += 1;
    t.validated += 1;
    let case = || json!({"packages": n});
    let root = scratch.join(format!("large{}", n));
    let _ = std::fs::remove_dir_all(&root);
    let name_of = |k: usize| format!("pkg{}-{}.{}nb{}", k, k % 11, k % 7, k % 5);
    let built = (|| -> std::io::Result<()> {
        std::fs::create_dir_all(&root)?;
        for k in 0..n {
            let d = root.join(name_of(k));
            std::fs::create_dir_all(&d)?;
            for (fi, f) in MANDATORY.iter().enumerate() {
                if k % 7 == 3 && fi == k % 3 {
                    continue; // incomplete
                }
                std::fs::write(d.join(f), shaped_content(k + fi, &name_of(k), f))?;
            }
            if k % 13 == 0 {
                std::fs::write(root.join(format!("stray{}-1.0", k)), b"x")?;
            }
        }
        Ok(())
    })();
    if built.is_err() {
        let _ = std::fs::remove_dir_all(&root);
        mc_core::run::machinery_fault("cannot build the scratch database");
    }
    let got = guard(|| {
        let db = PkgDB::open(&root).map_err(|e| e.to_string())?;
        let mut seen: Vec<(String, String, String, Vec<Result<String, String>>)> = vec![];
        for p in db {
            // an iterator may report an entry it cannot examine as an Err item and go on
            let Ok(p) = p else { continue };
            let reads = [MetadataEntry::Comment, MetadataEntry::Contents, MetadataEntry::Desc].into_iter().map(|e| p.read_metadata(e).map(|c| digest_of(&c)).map_err(|e| e.kind().to_string())).collect();
            seen.push((p.pkgname().clone(), p.pkgbase().clone(), p.pkgversion().clone(), reads));
        }
        seen.sort();
        Ok::<_, String>(seen)
    });
    let _ = std::fs::remove_dir_all(&root);
    let mut want: Vec<(String, String, String, Vec<Result<String, String>>)> = (0..n)
        .filter(|k| k % 7 != 3)
        .map(|k| {
            let name = name_of(k);
            let i = name.rfind('-').unwrap();
            let reads = MANDATORY.iter().enumerate().map(|(fi, f)| Ok(digest_of(&shaped_content(k + fi, &name, f)))).collect();
            (name.clone(), name[..i].to_string(), name[i + 1..].to_string(), reads)
        })
        .collect();
    want.sort();
    match got {
        Ok(Ok(seen)) if seen == want => {
            t.nontrivial += 1;
            t.outcome("large/all-listed-and-read");
        }
        Ok(Ok(seen)) => {
            let first = seen.iter().zip(want.iter()).position(|(a, b)| a != b).unwrap_or(seen.len().min(want.len()));
            let brief = |v: &Vec<(String, String, String, Vec<Result<String, String>>)>| v.get(first).map(|x| format!("{} / {} / {} / contents of {:?} bytes", x.0, x.1, x.2, x.3.iter().map(|r| r.as_ref().map(|s| s.clone()).map_err(|e| e.clone())).collect::<Vec<_>>()));
            t.violation(Violation::new("large", case(), json!({"packages": want.len(), "first_difference": brief(&want)}), json!({"packages": seen.len(), "first_difference": brief(&seen)}), "every complete directory once, correctly split, each '+FILE' read back whole whatever its size or line ends"));
        }
        other => t.violation(Violation::new("large", case(), json!(format!("{} packages", want.len())), json!(format!("{:?}", other.map(|r| r.map(|v| v.len())))), "iterating a large database failed")),
    }
}

/// The database is what the directory tree is *now*: iterate, change which directories are
/// complete (remove a mandatory file here, add the missing one there, swap a file for a
/// dangling link), put every modification time back to what it was (10 s in the past), and
/// iterate again with a fresh PkgDB and with a second pass over the same tree.
fn check_reiterate(t: &mut Tally, scratch: &Path, id: usize) {
    t.evals += 1;
    t.validated += 1;
    let root = scratch.join(format!("again{}", id));
    let _ = std::fs::remove_dir_all(&root);
    let past = std::time::SystemTime::now() - std::time::Duration::from_secs(10 + id as u64);
    let set_time = |p: &Path| -> std::io::Result<()> { std::fs::File::open(p)?.set_modified(past) };
    let list = |root: &Path| -> Result<Vec<String>, String> {
        let mut v = vec![];
        for p in PkgDB::open(root).map_err(|e| e.to_string())? {
            if let Ok(p) = p {
                v.push(p.pkgname().clone());
            }
        }
        v.sort();
        Ok(v)
    };
    let built = (|| -> std::io::Result<()> {
        for (n, complete) in [("alpha-1.0", true), ("beta-2.0", true), ("gamma-3.0", false), ("delta-4.0", true)] {
            let d = root.join(n);
            std::fs::create_dir_all(&d)?;
            for (k, f) in MANDATORY.iter().enumerate() {
                if complete || k != id % 3 {
                    std::fs::write(d.join(f), content(n, f))?;
                    let _ = set_time(&d.join(f));
                }
            }
            let _ = set_time(&d);
        }
        let _ = set_time(&root);
        Ok(())
    })();
    if built.is_err() {
        mc_core::run::machinery_fault("cannot build the scratch database");
    }
    let r = guard(|| -> Result<(Vec<String>, Vec<String>, Vec<String>), String> {
        let first = list(&root)?;
        // alpha loses a mandatory file, gamma gains its missing one, delta loses its +DESC
        // (a failure to change the scratch tree is a machinery fault, not a verdict)
        let miss = MANDATORY[id % 3];
        let io = |e: std::io::Error| -> ! { mc_core::run::machinery_fault(&format!("cannot change the scratch database: {}", e)) };
        std::fs::remove_file(root.join("alpha-1.0").join(miss)).unwrap_or_else(|e| io(e));
        std::fs::write(root.join("gamma-3.0").join(miss), content("gamma-3.0", miss)).unwrap_or_else(|e| io(e));
        // (plainly removed: whether a dangling link still makes the directory "contain" the file is not decided)
        std::fs::remove_file(root.join("delta-4.0").join("+DESC")).unwrap_or_else(|e| io(e));
        for n in ["alpha-1.0", "gamma-3.0", "delta-4.0"] {
            let _ = set_time(&root.join(n).join(miss));
            let _ = set_time(&root.join(n));
        }
        let _ = set_time(&root);
        let second = list(&root)?;
        let third = list(&root)?;
        Ok((first, second, third))
    });
    let _ = std::fs::remove_dir_all(&root);
    let want1: Vec<String> = vec!["alpha-1.0".into(), "beta-2.0".into(), "delta-4.0".into()];
    let want2: Vec<String> = vec!["beta-2.0".into(), "gamma-3.0".into()];
    match r {
        Ok(Ok((a, b, c))) if a == want1 && b == want2 && c == want2 => {
            t.nontrivial += 1;
            t.outcome("reiterate/follows-the-tree");
        }
        other => t.violation(Violation::new("reiterate", json!({"variant": id}), json!({"first": want1, "after the change": want2}), json!(format!("{:?}", other)), "iteration lists the directories that contain the three files now, not those that did at an earlier iteration")),
    }
}

fn check_names(t: &mut Tally, scratch: &Path, id: usize, names: &[String]) {
    t.evals += 1;
    t.validated += 1;
    let case = || json!({"complete_directories": names});
    let root = scratch.join(format!("names{}", id));
    let _ = std::fs::remove_dir_all(&root);
    let fault = |what: &str, e: std::io::Error| -> ! { mc_core::run::machinery_fault(&format!("cannot build the scratch database ({}): {}", what, e)) };
    if let Err(e) = std::fs::create_dir_all(&root) {
        fault("root", e);
    }
    // a name the file system refuses (invalid argument, too long) is not a case; the set goes on
    // without it.  Any other failure is a machinery fault.
    let mut names: Vec<String> = names.to_vec();
    names.retain(|n| {
        let d = root.join(n);
        match std::fs::create_dir_all(&d) {
            Ok(()) => true,
            Err(e) if matches!(e.raw_os_error(), Some(22) | Some(36) | Some(84)) => false, // EINVAL ENAMETOOLONG EILSEQ
            Err(e) => fault("package directory", e),
        }
    });
    // a file system that folds case or normalises names keeps one directory for two spellings:
    // only the names that the harness itself reads back byte for byte are cases
    match std::fs::read_dir(&root) {
        Ok(rd) => {
            let listed: std::collections::HashSet<std::ffi::OsString> = rd.filter_map(|e| e.ok()).map(|e| e.file_name()).collect();
            names.retain(|n| listed.contains(std::ffi::OsStr::new(n)));
        }
        Err(e) => fault("listing the scratch database", e),
    }
    if names.is_empty() {
        let _ = std::fs::remove_dir_all(&root);
        t.outcome("names/not-creatable");
        return;
    }
    let names = &names[..];
    for n in names {
        for f in MANDATORY {
            if let Err(e) = std::fs::write(root.join(n).join(f), content(n, f)) {
                fault("mandatory file", e);
            }
        }
    }
    if let Err(e) = std::fs::create_dir_all(root.join("incomplete-1.0")).and_then(|_| std::fs::write(root.join("incomplete-1.0").join("+DESC"), b"x")).and_then(|_| std::fs::write(root.join("stray-file-1.0"), b"x")) {
        fault("strays", e);
    }
    // files whose names are not UTF-8, next to the mandatory files of the first package and in the
    // database directory itself: they are not packages and do not un-make one (best effort: a
    // file system that refuses such names simply has none)
    {
        use std::os::unix::ffi::OsStrExt;
        let _ = std::fs::write(root.join(&names[0]).join(std::ffi::OsStr::from_bytes(b"stray-\xff")), b"x");
        let _ = std::fs::write(root.join(&names[0]).join(std::ffi::OsStr::from_bytes(b"+\xe9XTRA")), b"x");
        let _ = std::fs::write(root.join(std::ffi::OsStr::from_bytes(b"stray-\xfe-1.0")), b"x");
    }
    let mut reread: Option<(String, String, String)> = None;
    let got = guard(|| {
        let db = PkgDB::open(&root).map_err(|e| e.to_string())?;
        let mut seen: Vec<(String, String, String, Result<String, String>)> = vec![];
        let mut handles = vec![];
        for p in db {
            let Ok(p) = p else { continue };
            let desc = p.read_metadata(MetadataEntry::Desc).map_err(|e| e.kind().to_string());
            seen.push((p.pkgname().clone(), p.pkgbase().clone(), p.pkgversion().clone(), desc));
            handles.push(p);
        }
        // rewrite +DESC in place (same length, modification time put back, as cp -p / rsync -t
        // would).  Through the handle obtained before the rewrite either content is admissible
        // (the statement is about a tree that holds still); a package obtained by a fresh
        // iteration afterwards must see the file as it is now.
        for p in handles.iter().take(3) {
            // (a package reported under a name that is not one of the directories is a finding of
            // the comparison below, not a reason to look for its files)
            if !names.iter().any(|n| n == p.pkgname()) {
                continue;
            }
            let path = root.join(p.pkgname()).join("+DESC");
            let io = |e: std::io::Error| -> String { mc_core::run::machinery_fault(&format!("cannot rewrite a scratch file: {}", e)) };
            let old = std::fs::read_to_string(&path).unwrap_or_else(io);
            let mtime = std::fs::metadata(&path).and_then(|m| m.modified()).unwrap_or_else(|e| mc_core::run::machinery_fault(&format!("cannot stat a scratch file: {}", e)));
            let new: String = old.chars().map(|c| if c.is_ascii_lowercase() { c.to_ascii_uppercase() } else { c }).collect();
            if let Err(e) = std::fs::write(&path, &new) {
                mc_core::run::machinery_fault(&format!("cannot rewrite a scratch file: {}", e));
            }
            // (a file system that cannot set times: the rewrite alone is the change)
            let _ = std::fs::File::options().write(true).open(&path).and_then(|f| f.set_modified(mtime));
            let again = p.read_metadata(MetadataEntry::Desc).map_err(|e| e.kind().to_string());
            if again.as_deref() != Ok(new.as_str()) && again.as_deref() != Ok(old.as_str()) && reread.is_none() {
                reread = Some((p.pkgname().clone(), format!("{:?} or {:?}", new, old), format!("{:?}", again)));
            }
            let fresh = PkgDB::open(&root).map_err(|e| e.to_string())?.flatten().find(|q| q.pkgname() == p.pkgname()).map(|q| q.read_metadata(MetadataEntry::Desc).map_err(|e| e.kind().to_string()));
            if fresh.as_ref().map(|r| r.as_deref()) != Some(Ok(new.as_str())) && reread.is_none() {
                reread = Some((p.pkgname().clone(), new.clone(), format!("through a fresh iteration: {:?}", fresh)));
            }
        }
        seen.sort();
        Ok::<_, String>(seen)
    });
    let _ = std::fs::remove_dir_all(&root);
    if let Some((pkg, want, got)) = reread {
        t.violation(Violation::new("names", case(), json!({"package": pkg, "+DESC now": want}), json!(got), "reading a metadata entry returns the file's content (after an in-place rewrite: the new content through a fresh iteration, the old or the new through the earlier handle)"));
        return;
    }
    let mut want: Vec<(String, String, String, Result<String, String>)> = names
        .iter()
        .map(|n| {
            // (a name without '-': the whole name is the base and the version is empty - the
            // convention C18 states for the library's own PKGNAME split, DESIGN 11.15)
            match n.rfind('-') {
                Some(i) => (n.clone(), n[..i].to_string(), n[i + 1..].to_string(), Ok(content(n, "+DESC"))),
                None => (n.clone(), n.clone(), String::new(), Ok(content(n, "+DESC"))),
            }
        })
        .collect();
    want.sort();
    want.dedup();
    match got {
        Ok(Ok(seen)) if seen == want => {
            t.nontrivial += 1;
            t.outcome("names/all-listed");
        }
        other => t.violation(Violation::new("names", case(), json!(format!("{:?}", want)), json!(format!("{:?}", other)), "every sub-directory containing +COMMENT, +CONTENTS and +DESC is a package, whatever its name; pkgbase / pkgversion split at the last '-'")),
    }
}

/// Every sequence of <= n read_metadata calls over {Comment, Contents, Desc, BuildInfo} x four
/// values on ONE Metadata object: after every call, is_valid holds exactly when the comment,
/// contents and description getters are all non-empty (what the object itself reports).
fn metadata_histories(t: &mut Tally, n: usize) {
    metadata_histories_from(t, n, None)
}

/// `only`: replay exactly this sequence of calls (as recorded in a violation's case).
fn metadata_histories_from(t: &mut Tally, n: usize, only: Option<&[String]>) {
    // (no blank-only value: whether that counts as empty is left open)
    const TEXTS: [&str; 6] = ["", "x", "two\nlines\n", "@frobnicate\n", "@ignore x\nbin/a\n@pkgdep\n", "@name p-1\nbin/x\n"];
    let mut ops: Vec<(usize, &str)> = vec![];
    for e in [2usize, 3, 5] {
        for v in TEXTS {
            ops.push((e, v));
        }
    }
    // optional entries, among them the two sizes in both orders of magnitude
    ops.extend([(0usize, "A=1\n"), (12, "10"), (13, "5"), (13, "20"), (12, "x")]);
    let label = |o: usize| format!("{} <- {:?}", FILES[ops[o].0], ops[o].1);
    // Replay: decode the recorded calls and run exactly that one sequence.
    let decoded: Option<(usize, Vec<usize>)> = only.and_then(|calls| {
        let start = calls.first()?.strip_prefix("start ")?.parse::<usize>().ok()?;
        let q: Option<Vec<usize>> = calls[1..].iter().map(|c| (0..ops.len()).find(|o| &label(*o) == c)).collect();
        Some((start, q?))
    });
    if only.is_some() && decoded.is_none() {
        return;
    }
    let one = |t: &mut Tally, start: usize, q: &[usize]| {
        let mine: Vec<String> = std::iter::once(format!("start {}", start)).chain(q.iter().map(|o| label(*o))).collect();
        t.evals += 1;
        t.validated += 1;
        t.states += 1;
        t.transitions += 1;
        let r = guard(|| {
            let mut m = if start == 1 { Metadata::default() } else { Metadata::new() };
            // what the calls so far say about each mandatory entry, whether values replace or
            // accumulate: Some(true) = its latest value was not empty, Some(false) = it never got
            // a value that was not empty, None = left open
            let mut known: [Option<bool>; 3] = [Some(false); 3];
            if start == 2 {
                for (k, e) in [2usize, 3, 5].into_iter().enumerate() {
                    let _ = m.read_metadata(meta_entry(e), "base\n");
                    known[k] = Some(true);
                }
            }
            for (step, o) in q.iter().enumerate() {
                let _ = m.read_metadata(meta_entry(ops[*o].0), ops[*o].1);
                if let Some(k) = [2usize, 3, 5].iter().position(|e| *e == ops[*o].0) {
                    known[k] = if !ops[*o].1.is_empty() { Some(true) } else if known[k] == Some(false) { Some(false) } else { None };
                }
                let by_getters = !m.comment().is_empty() && !m.contents().is_empty() && !m.desc().is_empty();
                let got = m.is_valid().is_ok();
                if got != by_getters {
                    return Some((step, by_getters, got, "is_valid holds exactly when comment, contents and description are all non-empty (as the getters report them)"));
                }
                let by_calls = if known.iter().all(|k| *k == Some(true)) { Some(true) } else if known.iter().any(|k| *k == Some(false)) { Some(false) } else { None };
                if let Some(want) = by_calls {
                    if got != want {
                        return Some((step, want, got, "is_valid holds exactly when comment, contents and description were all given a value that is not empty (values for other entries change nothing about that)"));
                    }
                }
            }
            None
        });
        match r {
            Ok(None) => t.outcome("metadata-history/consistent"),
            Ok(Some((step, want, got, why))) => t.violation(Violation::new("metadata-history", json!({"calls": mine}), json!({"after_call": step + 1, "is_valid": want}), json!(got), why)),
            Err(m) => t.violation(Violation::new("metadata-history", json!({"calls": mine}), json!("returns"), json!(format!("panic: {}", m)), "Metadata panicked")),
        }
    };
    if let Some((start, q)) = decoded {
        one(t, start, &q);
        return;
    }
    for start in 0..3usize {
        // 0: Metadata::new(), 1: Metadata::default(), 2: new() with the three mandatory values set
        // (from the complete base one call fewer, at least one)
        let depth = if start == 2 { n.saturating_sub(1).max(1) } else { n };
        let mut pre = vec![];
        seqs::dfs(ops.len(), depth, &mut pre, &|_| false, &mut |q: &[usize]| {
            if !q.is_empty() {
                one(t, start, q);
            }
        });
    }
}

/// One small database reached through different spellings of its root: a directory whose name
/// is not UTF-8, a symbolic link to it, a trailing slash, '.' and '..' segments, a relative path.
fn check_roots(t: &mut Tally, scratch: &Path) {
    use std::os::unix::ffi::OsStrExt;
    let base = scratch.join("roots");
    let _ = std::fs::remove_dir_all(&base);
    let real = base.join(std::ffi::OsStr::from_bytes(b"db-\xff\xe9 root"));
    let fault = |e: std::io::Error| -> ! { mc_core::run::machinery_fault(&format!("cannot build the scratch database: {}", e)) };
    let names = ["pkg-1.0", "lib-x-2.0nb1"];
    if let Err(e) = std::fs::create_dir_all(&real) {
        if matches!(e.raw_os_error(), Some(22) | Some(84)) {
            // the file system refuses names that are not UTF-8: nothing to try here
            let _ = std::fs::remove_dir_all(&base);
            t.outcome("roots/non-utf8-names-not-creatable");
            return;
        }
        fault(e);
    }
    for n in names {
        std::fs::create_dir_all(real.join(n)).unwrap_or_else(|e| fault(e));
        for f in MANDATORY {
            std::fs::write(real.join(n).join(f), content(n, f)).unwrap_or_else(|e| fault(e));
        }
    }
    std::fs::create_dir_all(base.join("side")).unwrap_or_else(|e| fault(e));
    let link = base.join("link-to-db");
    std::os::unix::fs::symlink(&real, &link).unwrap_or_else(|e| fault(e));
    let mut with_slash = real.clone().into_os_string();
    with_slash.push("/");
    let mut dotted = base.clone().into_os_string();
    dotted.push("/./side/../");
    dotted.push(std::ffi::OsStr::from_bytes(b"db-\xff\xe9 root"));
    let mut link_slash = link.clone().into_os_string();
    link_slash.push("/");
    let roots: Vec<(&str, std::path::PathBuf)> = vec![("directory with a non-UTF-8 name", real.clone()), ("symbolic link to it", link.clone()), ("trailing slash", with_slash.into()), ("'.' and '..' segments", dotted.into()), ("symbolic link with a trailing slash", link_slash.into())];
    for (what, root) in roots {
        t.evals += 1;
        t.validated += 1;
        t.states += 1;
        t.transitions += 1;
        let got = guard(|| {
            let mut seen: Vec<(String, Result<String, String>)> = vec![];
            for p in PkgDB::open(&root).map_err(|e| e.to_string())?.flatten() {
                seen.push((p.pkgname().clone(), p.read_metadata(MetadataEntry::Desc).map_err(|e| e.kind().to_string())));
            }
            seen.sort();
            Ok::<_, String>(seen)
        });
        let mut want: Vec<(String, Result<String, String>)> = names.iter().map(|n| (n.to_string(), Ok(content(n, "+DESC")))).collect();
        want.sort();
        match got {
            Ok(Ok(seen)) if seen == want => {
                t.nontrivial += 1;
                t.outcome("roots/listed-and-read");
            }
            other => t.violation(Violation::new("roots", json!({"root": what}), json!(format!("{:?}", want)), json!(format!("{:?}", other)), "the same database, whatever the spelling of the path it is opened with")),
        }
    }
    let _ = std::fs::remove_dir_all(&base);
}

/// Package directories that are symbolic links to directories kept outside the database - alone
/// (so that the database directory has no sub-directory of its own), next to a real directory,
/// next to a link to an incomplete directory and a plain file - and a '+FILE' that is a link to
/// a file whose size the file system reports as 0 although it has content (procfs).
///
/// Whether a link to a complete directory *is* a sub-directory is not decided by the statement,
/// so it may be listed or not - but what is listed is a property of the entry itself ("exactly
/// the sub-directories that contain ..."), not of its neighbours: one and the same link is
/// listed in every database it is put into, or in none.  A real complete directory is always
/// listed, a link to an incomplete one never; whatever is listed has the link's name as its name
/// and reads its files.
fn check_linked(t: &mut Tally, scratch: &Path) {
    type Seen = Vec<(String, String, String, Result<String, String>, Result<String, String>, Result<String, String>)>;
    let fault = |e: std::io::Error| -> ! { mc_core::run::machinery_fault(&format!("cannot build the scratch database: {}", e)) };
    let proc_file = Path::new("/proc/sys/kernel/ostype");
    let proc_text = std::fs::read_to_string(proc_file).ok().filter(|s| !s.is_empty());
    let proc_live = proc_text.is_some() && std::fs::metadata(proc_file).map(|m| m.len() == 0).unwrap_or(false);
    t.outcome(if proc_live { "linked/procfs entry: size 0, content read" } else { "linked/no procfs file here (that clause is not exercised)" });
    let mut listed: Vec<(usize, Vec<String>)> = vec![];
    for variant in 0..8usize {
        let base = scratch.join(format!("linked{}", variant));
        let _ = std::fs::remove_dir_all(&base);
        let db = base.join("db");
        let store = base.join("store");
        std::fs::create_dir_all(&db).unwrap_or_else(|e| fault(e));
        let complete = |dir: &Path, name: &str| {
            std::fs::create_dir_all(dir).unwrap_or_else(|e| fault(e));
            for f in MANDATORY {
                std::fs::write(dir.join(f), content(name, f)).unwrap_or_else(|e| fault(e));
            }
            if proc_text.is_some() {
                std::os::unix::fs::symlink(proc_file, dir.join("+BUILD_INFO")).unwrap_or_else(|e| fault(e));
            }
            // a genuinely empty optional file
            std::fs::write(dir.join("+PRESERVE"), b"").unwrap_or_else(|e| fault(e));
        };
        // variant bits: 1 = a second link, 2 = a real complete directory as well, 4 = a link to an
        // incomplete directory and a plain file
        let mut links: Vec<&str> = vec!["lnk-1.0"];
        complete(&store.join("one"), "lnk-1.0");
        std::os::unix::fs::symlink(store.join("one"), db.join("lnk-1.0")).unwrap_or_else(|e| fault(e));
        if variant & 1 == 1 {
            complete(&store.join("two"), "other-lnk-2.0nb1");
            std::os::unix::fs::symlink("../store/two", db.join("other-lnk-2.0nb1")).unwrap_or_else(|e| fault(e));
            links.push("other-lnk-2.0nb1");
        }
        if variant & 2 == 2 {
            complete(&db.join("real-3.0"), "real-3.0");
        }
        if variant & 4 == 4 {
            std::fs::create_dir_all(store.join("half")).unwrap_or_else(|e| fault(e));
            std::fs::write(store.join("half").join("+COMMENT"), b"c\n").unwrap_or_else(|e| fault(e));
            std::os::unix::fs::symlink(store.join("half"), db.join("half-1.0")).unwrap_or_else(|e| fault(e));
            std::fs::write(db.join("pkgdb.byfile.db"), b"db").unwrap_or_else(|e| fault(e));
        }
        // the harness itself must be able to read through its links (a scratch file system that
        // does not follow them says nothing about the library)
        for l in &links {
            if std::fs::read_to_string(db.join(l).join("+DESC")).ok() != Some(content(l, "+DESC")) {
                mc_core::run::machinery_fault("the scratch file system does not follow symbolic links");
            }
        }
        t.evals += 1;
        t.validated += 1;
        t.states += 1;
        t.transitions += 1;
        let got = guard(|| {
            let mut seen: Seen = vec![];
            for p in PkgDB::open(&db).map_err(|e| e.to_string())?.flatten() {
                let rd = |e: MetadataEntry| p.read_metadata(e).map_err(|e| e.kind().to_string());
                seen.push((p.pkgname().clone(), p.pkgbase().clone(), p.pkgversion().clone(), rd(MetadataEntry::Desc), rd(MetadataEntry::BuildInfo), rd(MetadataEntry::Preserve)));
            }
            seen.sort();
            Ok::<_, String>(seen)
        });
        let _ = std::fs::remove_dir_all(&base);
        let case = json!({"variant": variant, "links": links, "real_directory": variant & 2 == 2, "link_to_incomplete_directory": variant & 4 == 4});
        let seen = match got {
            Ok(Ok(seen)) => seen,
            other => {
                t.violation(Violation::new("linked", case, json!("iteration succeeds"), json!(format!("{:?}", other)), "iterating a database with linked package directories failed"));
                return;
            }
        };
        // every listed entry: admissible, named after the entry, split at the last '-', readable
        let mut names: Vec<String> = vec![];
        for (name, b, v, desc, info, preserve) in &seen {
            let admissible = links.contains(&name.as_str()) || (variant & 2 == 2 && name == "real-3.0");
            let i = name.rfind('-').unwrap_or(0);
            let parts_ok = *b == name[..i] && *v == name[i + 1..];
            let reads_ok = *desc == Ok(content(name, "+DESC")) && *preserve == Ok(String::new()) && proc_text.as_ref().map_or(true, |x| info.as_ref() == Ok(x));
            if !admissible || !parts_ok || !reads_ok || names.contains(name) {
                t.violation(Violation::new("linked", case, json!("only complete directories (real, or - if links count - linked), each once, named after the entry, split at the last '-', every '+FILE' read as the file reads (also a procfs file of reported size 0, and an empty one)"), json!(format!("{:?}", seen)), "a listed package is wrong"));
                return;
            }
            names.push(name.clone());
        }
        if variant & 2 == 2 && !names.iter().any(|n| n == "real-3.0") {
            t.violation(Violation::new("linked", case, json!("real-3.0 is listed"), json!(format!("{:?}", names)), "a complete real directory is not listed"));
            return;
        }
        listed.push((variant, names));
    }
    // one and the same link: listed in every database that holds it, or in none
    for link in ["lnk-1.0", "other-lnk-2.0nb1"] {
        let holders: Vec<&(usize, Vec<String>)> = listed.iter().filter(|(v, _)| link == "lnk-1.0" || v & 1 == 1).collect();
        let yes: Vec<usize> = holders.iter().filter(|(_, n)| n.iter().any(|x| x == link)).map(|(v, _)| *v).collect();
        if !yes.is_empty() && yes.len() != holders.len() {
            t.violation(Violation::new("linked", json!({"link": link, "databases": holders.iter().map(|(v, _)| *v).collect::<Vec<_>>()}), json!("listed in all of them or in none"), json!({"listed_in": yes}), "whether an entry is a package depends on the entry, not on its neighbours (a database whose only entries are links, one with a real directory next to them, one with a plain file)"));
            return;
        }
        t.outcome(if yes.is_empty() { "linked/links are not listed (consistently)" } else { "linked/links are listed (consistently)" });
    }
    t.nontrivial += 8;
}

fn tables(t: &mut Tally) {
    // bijection over the 14 '+' files
    for i in 0..14 {
        t.evals += 1;
        t.validated += 1;
        t.states += 1;
        let e = meta_entry(i);
        let r = guard(|| {
            let f = e.to_filename().to_string();
            (f.clone(), MetadataEntry::from_filename(&f) == Some(meta_entry(i)))
        });
        match r {
            Ok((f, true)) if f == FILES[i] => t.outcome("table/roundtrip"),
            other => t.violation(Violation::new("table", json!({"entry": FILES[i]}), json!({"filename": FILES[i], "from_filename(to_filename(e))": "e"}), json!(format!("{:?}", other)), "MetadataEntry <-> file name must be a bijection over the 14 '+' files")),
        }
        // every 1-edit near-miss must be rejected, unless it is itself one of the 14 names
        let name: Vec<char> = FILES[i].chars().collect();
        let alphabet: Vec<char> = "ABCDEFGHIJKLMNOPQRSTUVWXYZ_+ abcdefghijklmnopqrstuvwxyz0".chars().collect();
        let mut near: Vec<String> = vec![];
        for k in 0..=name.len() {
            for a in &alphabet {
                let mut c = name.clone();
                c.insert(k, *a);
                near.push(c.into_iter().collect());
            }
            if k < name.len() {
                let mut c = name.clone();
                c.remove(k);
                near.push(c.into_iter().collect());
                for a in &alphabet {
                    let mut c = name.clone();
                    c[k] = *a;
                    near.push(c.into_iter().collect());
                }
            }
        }
        // the name inside a longer text: behind and in front of every sweep character (among them
        // '/', '\\', ':', NUL, the line ends and the white-space characters) and as the last / first
        // component of path-like texts - only the 14 names themselves are file names
        {
            let base: String = name.iter().collect();
            let mut chars = mc_core::chars::all();
            chars.extend(['/', '\0', '\n', '\r']);
            for c in chars {
                near.push(format!("{}{}", c, base));
                near.push(format!("{}{}", base, c));
                near.push(format!("{}{}{}", c, c, base));
                near.push(format!("x{}{}", c, base));
            }
            for pre in ["./", "../", "/", "//", "pkg-1.0/", "/var/db/pkg/pkg-1.0/", "a/b/", "./pkg/./", "+DESC/", "+", "++", "pkg-1.0:", "C:\\", "~/"] {
                near.push(format!("{}{}", pre, base));
            }
            for post in ["/", "/.", "/+DESC", ".gz", ",v", ".orig", "~", "/..", "\r\n"] {
                near.push(format!("{}{}", base, post));
            }
            near.push(base.to_lowercase());
            near.push(base[1..].to_string());
            near.push(format!("{}{}", base, base));
        }
        for s in near {
            t.evals += 1;
            t.validated += 1;
            let want = FILES.iter().position(|f| *f == s);
            let got = guard(|| MetadataEntry::from_filename(&s).map(|e| e.to_filename().to_string()));
            let ok = match (&got, want) {
                (Ok(Some(f)), Some(w)) => f == FILES[w],
                (Ok(None), None) => true,
                _ => false,
            };
            if !ok {
                t.violation(Violation::new("table", json!({"filename": s}), json!(want.map(|w| FILES[w])), json!(format!("{:?}", got)), "a string that is not one of the 14 file names must not map to an entry"));
            } else if want.is_none() {
                t.outcome("table/near-miss-rejected");
            }
        }
    }
    // Metadata::is_valid over {unset, blank-only, text}^3
    let vals: [Option<&str>; 4] = [None, Some("  \n\t"), Some("text\n"), Some("")];
    for a in 0..4 {
        for b in 0..4 {
            for c in 0..4 {
                t.evals += 1;
                t.validated += 1;
                t.states += 1;
                let want = a == 2 && b == 2 && c == 2;
                // "non-empty": whether a blank-only text counts as empty is not decided by the statement
                let open = [a, b, c].contains(&1) && ![a, b, c].iter().any(|x| *x == 0 || *x == 3);
                let got = guard(|| {
                    let mut m = Metadata::new();
                    for (e, v) in [(2usize, vals[a]), (3, vals[b]), (5, vals[c])] {
                        if let Some(v) = v {
                            let _ = m.read_metadata(meta_entry(e), v);
                        }
                    }
                    m.is_valid().is_ok()
                });
                if open && got.is_ok() {
                    t.outcome("is_valid/blank-only-value (not constrained)");
                } else if got != Ok(want) {
                    t.violation(Violation::new("valid", json!({"comment": vals[a], "contents": vals[b], "desc": vals[c]}), json!(want), json!(format!("{:?}", got)), "Metadata::is_valid holds exactly when comment, contents and description are all non-empty"));
                } else {
                    t.outcome(if want { "is_valid/true" } else { "is_valid/false" });
                    t.nontrivial += 1;
                }
            }
        }
    }
}

fn replay(run: &Run, doc: &Value) -> Option<Violation> {
    let c = &doc["case"];
    let mut t = Tally::new();
    match doc["kind"].as_str() {
        Some("layout") => {
            let dirs: Vec<(usize, u8, bool)> = c["dirs"]
                .as_array()
                .map(|a| {
                    a.iter()
                        .map(|d| (NAMES.iter().position(|n| Some(*n) == d["name"].as_str()).unwrap_or(0), d["mandatory_mask"].as_u64().unwrap_or(0) as u8, d["extra_files"].as_bool().unwrap_or(false)))
                        .collect()
                })
                .unwrap_or_default();
            let l = Layout { dirs, stray: c["stray"].as_u64().unwrap_or(0) as u8 };
            check_layout(&mut t, &run.scratch_dir(), 0, &l);
        }
        Some("roots") => check_roots(&mut t, &run.scratch_dir()),
        Some("linked") => check_linked(&mut t, &run.scratch_dir()),
        Some("metadata-history") => {
            let calls: Vec<String> = c["calls"].as_array().map(|a| a.iter().filter_map(|x| x.as_str().map(|s| s.to_string())).collect()).unwrap_or_default();
            metadata_histories_from(&mut t, calls.len(), Some(&calls));
        }
        Some("reiterate") => check_reiterate(&mut t, &run.scratch_dir(), c["variant"].as_u64().unwrap_or(0) as usize),
        Some("large") => check_large(&mut t, &run.scratch_dir(), c["packages"].as_u64().unwrap_or(1) as usize),
        Some("names") => {
            let names: Vec<String> = c["complete_directories"].as_array().map(|a| a.iter().filter_map(|x| x.as_str().map(|s| s.to_string())).collect()).unwrap_or_default();
            check_names(&mut t, &run.scratch_dir(), 0, &names);
        }
        _ => tables(&mut t),
    }
    t.violations.into_iter().next()
}

fn main() {
    let run = Run::from_args("C20");
    if let Some(doc) = run.replay_case() {
        let a = replay(&run, doc);
        let b = replay(&run, doc);
        let _ = std::fs::remove_dir_all(run.scratch_dir());
        run.finish_replay(a, b);
    }
    run.rule(
        "databases materialised on a scratch directory: every set of <= N package directories \
         drawn from 12 name shapes (one or several '-', nb revisions, 'nb' as base, digits and dots, last part starting with a letter) \
         with distinct names, each with EVERY subset of {+COMMENT, +CONTENTS, +DESC}, optionally \
         extra '+' files and a non-metadata file, plus stray plain files (including one whose name \
         looks like a package) and dangling symbolic links and the empty database. Checked: the multiset of yielded packages == \
         the complete directories, each once; pkgname == directory name; pkgbase / pkgversion == \
         parts around the last '-'; read_metadata(e) == content of '+FILE' for every written entry \
         and Err otherwise, for all 14 entries. Tables: from_filename(to_filename(e)) == e for the \
         14 entries and every 1-edit near-miss of every name is rejected; Metadata::is_valid over \
         {unset, blank-only, text, empty}^3. Non-trivial = layouts with an incomplete directory or \
         stray files; every is_valid combination.",
    );
    run.assume("plain files, directories and dangling symbolic links among the strays; no permission errors (the harness runs as root); directory iteration order is compared as a set");

    let scratch = run.scratch_dir();
    let mut layouts: Vec<Layout> = vec![Layout { dirs: vec![], stray: 0 }, Layout { dirs: vec![], stray: 3 }];
    // one directory: every name x every subset x extra
    for n in 0..NAMES.len() {
        for m in 0..8u8 {
            for e in [false, true] {
                layouts.push(Layout { dirs: vec![(n, m, e)], stray: (n as u8 + m) % 4 });
            }
        }
    }
    // two directories: every ordered pair of distinct names (thorough) / a rotating subset (quick) x all subset pairs
    for a in 0..NAMES.len() {
        for b in 0..NAMES.len() {
            if a >= b {
                continue;
            }
            if !run.thorough() && (a + b) % 3 != 0 {
                continue;
            }
            for ma in 0..8u8 {
                for mb in 0..8u8 {
                    layouts.push(Layout { dirs: vec![(a, ma, ma % 2 == 0), (b, mb, false)], stray: (ma + mb) % 4 });
                }
            }
        }
    }
    // three directories
    let triples: Vec<(usize, usize, usize)> = if run.thorough() { vec![(0, 1, 2), (3, 4, 5), (6, 7, 8), (0, 4, 8), (2, 3, 7), (9, 10, 11), (1, 9, 5)] } else { vec![(0, 3, 6), (9, 10, 11)] };
    for (a, b, c) in triples {
        for ma in 0..8u8 {
            for mb in 0..8u8 {
                for mc in 0..8u8 {
                    layouts.push(Layout { dirs: vec![(a, ma, false), (b, mb, true), (c, mc, false)], stray: (ma ^ mb ^ mc) % 4 });
                }
            }
        }
    }
    // all twelve names at once (every third one incomplete, strays in between)
    {
        let dirs: Vec<(usize, u8, bool)> = (0..NAMES.len()).map(|k| (k, if k % 3 == 2 { (k % 7) as u8 } else { 7 }, k % 2 == 0)).collect();
        layouts.push(Layout { dirs, stray: 3 });
    }
    run.bound(format!("{} database layouts (<= 3 package directories, all subsets of the mandatory files); 14-entry table with all 1-edit near-misses; 64 is_valid combinations", layouts.len()));
    par_items(&run, "C20 layouts", &layouts, |i, l, t| {
        t.states += 1;
        t.transitions += 1;
        check_layout(t, &scratch, i, l);
        t.sample(run.seed, i as u64, || layout_json(l));
    });
    // name sweep: every ASCII character (except '/' and NUL) and 64 special characters at the
    // start, inside and at the end of the base and of the version of a complete package directory
    {
        let mut chars = mc_core::chars::all();
        chars.retain(|c| *c != '/');
        let mut sets: Vec<Vec<String>> = chars
            .iter()
            .map(|c| vec![format!("{}pkg-1.0", c), format!("pkg-1.0{}", c), format!("pk{}g-1.0", c), format!("pkg-{}1", c), format!("pkg{}-2", c), format!("{}{}x-3", c, c)])
            .collect();
        sets.push(vec![".hidden-tool-2.0nb1".into(), "..odd-3".into(), "...-1".into(), "-lead-1".into(), "trail-1-".into(), "--".into(), "-".into(), "a--1".into(), "lost+found-1".into(), "CVS-1".into(), ".git-1".into(), "#tmp#-1".into(), "core-1".into(), "pkgdb.byfile.db-1".into(), "x-1.tmp".into(), "x-1.lock".into(), "x-1~".into()]);
        sets.push((0..40).map(|i| format!("{}-{}", "n".repeat(1 + i * 6), "9".repeat(1 + (i % 5) * 50))).filter(|n| n.len() <= 250).collect());
        // names without any '-': packages all the same, whole name as base, empty version
        sets.push(vec!["mktool".into(), "x".into(), ".hidden".into(), "pkg1.0".into(), "pkg_1.0".into(), "1.0".into(), "nb1".into(), "1.0nb2".into(), "pkg.1".into(), "PKG".into(), "p k g".into(), "pkg+1".into(), "pkg>=1".into(), "pkg{1,2}".into(), "pkg\u{2010}1".into(), "pkg\u{2212}1".into(), "pkg\u{ff0d}1".into(), "n".repeat(250)]);
        sets.push(chars.iter().filter(|c| **c != '-').map(|c| format!("pkg{}1", c)).collect());
        run.bound(format!("name sweep: {} databases, {} characters in six positions of a complete directory's name, plus dot-leading / dash-only / editor-dropping-like names, names up to 250 bytes and names without any '-' (every character between 'pkg' and '1', dash look-alikes)", sets.len(), chars.len()));
        par_items(&run, "C20 names", &sets, |i, names, t| {
            t.states += 1;
            t.transitions += names.len() as u64;
            check_names(t, &scratch, i, names);
        });
    }
    // the tree changes between two iterations while every modification time is put back
    {
        let ids: Vec<usize> = (0..6).collect();
        run.bound("re-iteration: 6 variants of a 4-directory tree changed between iterations (a file removed here, the missing file added there) with all modification times restored");
        par_items(&run, "C20 re-iteration", &ids, |_, i, t| {
            t.states += 1;
            t.transitions += 3;
            check_reiterate(t, &scratch, *i);
        });
    }
    // scale: databases of 9..1100 (thorough 2500) numbered packages with metadata files of every
    // shape (empty, one byte, no final newline, CR LF, 8 KiB +-1, 1 MiB, non-ASCII)
    {
        let sizes: Vec<usize> = if run.thorough() { vec![9, 16, 17, 40, 300, 1100, 2500] } else { vec![9, 16, 17, 40, 300, 1100] };
        run.bound(format!("scale: databases of {:?} numbered packages, every seventh incomplete, metadata contents of ten shapes (0 bytes .. 1 MiB)", sizes));
        par_items(&run, "C20 large databases", &sizes, |_, n, t| {
            t.states += 1;
            t.transitions += *n as u64;
            check_large(t, &scratch, *n);
        });
    }
    run.bound(format!("Metadata histories: all sequences of <= {} read_metadata calls over 23 (entry, value) operations (three mandatory entries x six texts incl. packing lists, BUILD_INFO, the two sizes) on an object from new() and from default(), and one call fewer from a complete base; judged by the getters and by which entries were given a non-empty value; database roots: 5 spellings (non-UTF-8 name, symbolic link, trailing slash, dot segments)", run.pick(3, 4)));
    let mut t = Tally::new();
    metadata_histories(&mut t, run.pick(3, 4));
    check_roots(&mut t, &scratch);
    run.bound("linked package directories: 8 databases whose package directories are symbolic links to directories kept elsewhere (one or two links, with and without a real directory, a link to an incomplete directory and a plain file): whether links count is left open, but the same link must be listed in all of them or in none; each directory with a '+BUILD_INFO' that is a link to a procfs file (size reported as 0) where /proc exists, and an empty '+PRESERVE'");
    check_linked(&mut t, &scratch);
    tables(&mut t);
    run.merge(t);
    run.finish();
}
