//! C12 - checksum and size verification passes only for files that really
//! match; entries are located by the shortest recorded trailing sub-path.

use mc_core::model::digest as mdigest;
use mc_core::model::distinfo::{self as md, File, Model, ALGOS};
use mc_core::par::par_items;
use mc_core::seqs;
use mc_core::{bytes_from_json, bytes_json, guard, Run, Tally, Violation};
use pkgsrc::digest::Digest;
use pkgsrc::distinfo::{Checksum, Distinfo, DistinfoError, Entry};
use serde_json::{json, Value};
use std::path::{Path, PathBuf};
use std::str::FromStr;

const LINES: [&[u8]; 7] = [b"a\n", b"$NetBSD: p,v 1.1 $\n", b"b $NetBSD$ c\n", b"\n", b"\x00\xff\n", b"z", b"${V} $x $NetBSD: y $\r\n"];

fn model_hash(algo: &str, content: &[u8], patch: bool) -> String {
    if patch {
        mdigest::digest(algo, &mdigest::patch_filter(content))
    } else {
        mdigest::digest(algo, content)
    }
}

fn err_json(e: &DistinfoError) -> Value {
    match e {
        DistinfoError::Checksum(p, d, exp, act) => json!({"Checksum": {"name": p.to_string_lossy(), "algo": d.to_string(), "expected": exp, "actual": act}}),
        DistinfoError::Size(p, exp, act) => json!({"Size": {"name": p.to_string_lossy(), "expected": exp, "actual": act}}),
        DistinfoError::MissingChecksum(p, d) => json!({"MissingChecksum": {"path": p.to_string_lossy(), "algo": d.to_string()}}),
        DistinfoError::MissingSize(p) => json!({"MissingSize": {"path": p.to_string_lossy()}}),
        DistinfoError::NotFound => json!("NotFound"),
        DistinfoError::Io(e) => json!({"Io": e.to_string()}),
        DistinfoError::Digest(e) => json!({"Digest": e.to_string()}),
    }
}

fn digest_of(a: &str) -> Digest {
    Digest::from_str(a).expect("algorithm name")
}

/// One (file content on disk, recorded values) configuration: every
/// verification entry point against the recomputed truth.
#[allow(clippy::too_many_arguments)]
fn verify_case(
    t: &mut Tally,
    dir: &Path,
    name: &str,
    content: &[u8],
    algo: &str,
    recorded_hash: &str,
    recorded_size: Option<u64>,
    via_text: bool,
) {
    t.evals += 1;
    t.validated += 1;
    t.transitions += 1;
    let patch = md::classify(name.as_bytes()) == md::Class::Patch;
    let path = dir.join(name);
    let case = || {
        json!({"name": name, "content": bytes_json(content), "algo": algo, "recorded_hash": recorded_hash,
               "recorded_size": recorded_size, "via_text": via_text})
    };
    if let Some(parent) = path.parent() {
        let _ = std::fs::create_dir_all(parent);
    }
    if std::fs::write(&path, content).is_err() {
        mc_core::run::machinery_fault("cannot write a scratch file");
    }
    // for DIST_SUBDIR names: an entry with the same file name under another directory is
    // recorded first; it is not a trailing sub-path of the file's path and must not be used
    let base = name.rsplit('/').next().unwrap_or(name);
    let other = if name.contains('/') { Some(format!("x/{}", base)) } else { None };
    let truth = model_hash(algo, content, patch);
    // a patch has no size line in a distinfo file; through the API it may carry a size
    let nosize = patch && via_text;
    let real_len = content.len() as u64;
    let other_algo = ALGOS[(ALGOS.iter().position(|a| *a == algo).unwrap() + 1) % 6];

    let r = guard(|| {
        let di = if via_text {
            let mut files = vec![];
            if let Some(o) = &other {
                files.push(File { name: o.as_bytes().to_vec(), checksums: vec![(algo.into(), "00".into())], size: if patch { None } else { Some(u64::MAX) } });
            }
            files.push(File { name: name.as_bytes().to_vec(), checksums: vec![(algo.into(), recorded_hash.into())], size: if patch { None } else { recorded_size } });
            let m = Model { rcsid: None, distfiles: if patch { vec![] } else { files.clone() }, patchfiles: if patch { files } else { vec![] } };
            Distinfo::from_bytes(&md::serialise(&m))
        } else {
            let mut d = Distinfo::new();
            if let Some(o) = &other {
                d.insert(Entry::new(o, "/nonexistent", vec![Checksum::new(digest_of(algo), "00".to_string())], if patch { None } else { Some(u64::MAX) }));
            }
            d.insert(Entry::new(name, &path, vec![Checksum::new(digest_of(algo), recorded_hash.to_string())], recorded_size));
            d
        };
        let calc = Distinfo::calculate_checksum(&path, digest_of(algo));
        let calc_size = Distinfo::calculate_size(&path);
        let v1 = di.verify_checksum(&path, digest_of(algo));
        let v_all = di.verify_checksums(&path);
        let v_other = di.verify_checksum(&path, digest_of(other_algo));
        let v_size = di.verify_size(&path);
        // and directly on the entry
        let e = di.find_entry(&path).ok().map(|e| (e.verify_checksum(&path, digest_of(algo)), e.verify_size(&path), e.verify_checksums(&path).len()));
        (calc, calc_size, v1, v_all, v_other, v_size, e)
    });
    let (calc, calc_size, v1, v_all, v_other, v_size, via_entry) = match r {
        Ok(x) => x,
        Err(m) => {
            t.violation(Violation::new("verify", case(), json!("returns"), json!(format!("panic: {}", m)), "verification panicked"));
            return;
        }
    };
    let mut bad = |what: &str, exp: Value, obs: Value| t.violation(Violation::new("verify", case(), exp, obs, what));

    match &calc {
        Ok(h) if *h == truth => {}
        other => {
            bad("calculate_checksum must be the algorithm's digest of the file (patches: without $NetBSD lines)", json!(truth), json!(format!("{:?}", other.as_ref().map_err(err_json))));
            return;
        }
    }
    if !matches!(calc_size, Ok(n) if n == real_len) {
        bad("calculate_size must be the file length", json!(real_len), json!(format!("{:?}", calc_size.as_ref().map_err(err_json))));
        return;
    }
    // checksum verification
    let check_ck = |v: &Result<Digest, DistinfoError>| -> Option<(Value, Value)> {
        if recorded_hash == truth {
            match v {
                Ok(d) if d.to_string() == algo => None,
                other => Some((json!(format!("Ok({})", algo)), json!(format!("{:?}", other.as_ref().map(|d| d.to_string()).map_err(err_json))))),
            }
        } else {
            match v {
                Err(DistinfoError::Checksum(p, d, exp, act))
                    if { let _ = p; true } && d.to_string() == algo && exp == recorded_hash && *act == truth => None,
                other => Some((
                    json!({"Checksum": {"name": name, "algo": algo, "expected": recorded_hash, "actual": truth}}),
                    json!(format!("{:?}", other.as_ref().map(|d| d.to_string()).map_err(err_json))),
                )),
            }
        }
    };
    if let Some((e, o)) = check_ck(&v1) {
        bad("verify_checksum succeeds exactly when the recorded hash equals the digest; a mismatch carries expected and actual", e, o);
        return;
    }
    if v_all.len() != 1 {
        bad("verify_checksums returns one result per recorded checksum", json!(1), json!(v_all.len()));
        return;
    }
    if let Some((e, o)) = check_ck(&v_all[0]) {
        bad("verify_checksums: same verdict as verify_checksum", e, o);
        return;
    }
    if !matches!(&v_other, Err(DistinfoError::MissingChecksum(_, d)) if d.to_string() == other_algo) {
        bad("an algorithm that is not recorded must be reported as missing", json!({"MissingChecksum": other_algo}), json!(format!("{:?}", v_other.as_ref().map(|d| d.to_string()).map_err(err_json))));
        return;
    }
    // size verification
    let size_expect_ok = !nosize && recorded_size == Some(real_len);
    let size_ok = match (&v_size, nosize, recorded_size) {
        (Err(DistinfoError::MissingSize(_)), true, _) | (Err(DistinfoError::MissingSize(_)), false, None) => true,
        // which path the error names, and what Ok carries, is not part of the statement
        (Ok(_), false, Some(_)) => size_expect_ok,
        (Err(DistinfoError::Size(_, exp, act)), false, Some(s)) => !size_expect_ok && *exp == s && *act == real_len,
        _ => false,
    };
    if !size_ok {
        bad("verify_size succeeds exactly when the length equals the recorded size (Size error with expected/actual, MissingSize when none recorded)", json!({"recorded": recorded_size, "actual_len": real_len, "patch": patch, "size_recorded": !nosize}), json!(format!("{:?}", v_size.as_ref().map_err(err_json))));
        return;
    }
    match via_entry {
        Some((ev, es, n)) => {
            if check_ck(&ev).is_some() || n != 1 || es.is_ok() != v_size.is_ok() {
                bad("Entry::verify_* must agree with Distinfo::verify_*", json!("same verdicts"), json!(format!("{:?} {:?} {}", ev.as_ref().map(|d| d.to_string()).map_err(err_json), es.as_ref().map_err(err_json), n)));
                return;
            }
        }
        None => {
            bad("find_entry must locate the entry from its full path", json!("found"), json!("NotFound"));
            return;
        }
    }
    // the same verdicts when the path is a symbolic link to the file
    if recorded_hash == truth || recorded_size != Some(real_len) {
        // also: the recorded name is a link into a content store whose files have other names
        {
            let store = dir.join("store");
            let _ = std::fs::create_dir_all(&store);
            let blob = store.join("blob-0123abcd");
            let ldir2 = dir.join("lnk2");
            let link2 = ldir2.join(name);
            if let Some(parent) = link2.parent() {
                let _ = std::fs::create_dir_all(parent);
            }
            let _ = std::fs::remove_file(&link2);
            if !(std::fs::write(&blob, content).is_ok() && std::os::unix::fs::symlink(&blob, &link2).is_ok()) {
                mc_core::run::machinery_fault("cannot create a symbolic link in the scratch directory");
            }
            {
                let r = guard(|| {
                    let mut d = Distinfo::new();
                    d.insert(Entry::new(name, &link2, vec![Checksum::new(digest_of(algo), recorded_hash.to_string())], if nosize { None } else { recorded_size }));
                    // ... and the entry verified against the store file itself, whose name says nothing
                    // about its kind: the entry (a patch or not) decides which digest applies
                    let direct = d.find_entry(&link2).ok().map(|e| (e.verify_checksum(&blob, digest_of(algo)).map(|d| d.to_string()).map_err(|e| err_json(&e)), e.verify_checksums(&blob).into_iter().map(|r| r.is_ok()).collect::<Vec<_>>()));
                    // (only where the two readings agree: the content has no marker line, or the
                    // entry is not a patch - whether the entry or the name of the file handed in
                    // decides the filtering is not in the statement)
                    if let Some((dv, dall)) = &direct {
                        let agree = !patch || mdigest::patch_filter(content) == content;
                        if agree && (dv.is_ok() != (recorded_hash == truth) || dall != &vec![recorded_hash == truth]) {
                            return (false, Err(json!({"Entry::verify_checksum on the store file": format!("{:?} {:?}", dv, dall)})), Err(json!("n/a")));
                        }
                    }
                    (d.find_entry(&link2).is_ok(), d.verify_checksum(&link2, digest_of(algo)).map(|d| d.to_string()).map_err(|e| err_json(&e)), d.verify_size(&link2).map_err(|e| err_json(&e)))
                });
                let _ = std::fs::remove_file(&link2);
                if let Err(m) = &r {
                    bad("verification through a symbolic link panicked", json!("returns"), json!(format!("panic: {}", m)));
                    return;
                }
                if let Ok((found, vc, vs)) = r {
                    let size_ok = if nosize || recorded_size.is_none() { vs.is_err() } else { vs.is_ok() == (recorded_size == Some(real_len)) };
                    if !(found && vc.is_ok() == (recorded_hash == truth) && size_ok) {
                        bad("an entry is located by the given path's trailing sub-paths, also when that path is a symbolic link to a file of another name", json!({"found": true, "hash_matches": recorded_hash == truth, "size_matches": recorded_size == Some(real_len)}), json!(format!("found={} {:?} {:?}", found, vc, vs)));
                        return;
                    }
                }
            }
        }
        let ldir = dir.join("lnk");
        let link = ldir.join(name);
        if let Some(parent) = link.parent() {
            let _ = std::fs::create_dir_all(parent);
        }
        let _ = std::fs::remove_file(&link);
        if std::os::unix::fs::symlink(&path, &link).is_err() {
            mc_core::run::machinery_fault("cannot create a symbolic link in the scratch directory");
        }
        {
            let r = guard(|| {
                let mut d = Distinfo::new();
                d.insert(Entry::new(name, &link, vec![Checksum::new(digest_of(algo), recorded_hash.to_string())], if nosize { None } else { recorded_size }));
                (d.verify_size(&link).map_err(|e| err_json(&e)), d.verify_checksum(&link, digest_of(algo)).map(|d| d.to_string()).map_err(|e| err_json(&e)), Distinfo::calculate_size(&link).map_err(|e| err_json(&e)))
            });
            let _ = std::fs::remove_file(&link);
            if let Err(m) = &r {
                bad("verification through a symbolic link panicked", json!("returns"), json!(format!("panic: {}", m)));
                return;
            }
            if let Ok((vs, vc, cs)) = r {
                let size_ok = if nosize || recorded_size.is_none() { vs.is_err() } else { vs.is_ok() == (recorded_size == Some(real_len)) };
                let ck_ok = vc.is_ok() == (recorded_hash == truth);
                if !(size_ok && ck_ok && cs == Ok(real_len)) {
                    bad("verification through a symbolic link must see the file, not the link", json!({"size_matches": recorded_size == Some(real_len), "hash_matches": recorded_hash == truth, "len": real_len}), json!(format!("{:?} {:?} {:?}", vs, vc, cs)));
                    return;
                }
            }
        }
    }
    let key = format!(
        "{}/hash-{}/size-{}",
        if patch { "patch" } else { "distfile" },
        if recorded_hash == truth { "ok" } else { "mismatch" },
        if nosize || recorded_size.is_none() { "none" } else if size_expect_ok { "ok" } else { "mismatch" }
    );
    if recorded_hash != truth || !(size_expect_ok || nosize) {
        t.nontrivial += 1;
    }
    t.outcome(&key);
}

/// An entry with several recorded checksums in the given order, the ones selected by
/// `wrong` carrying a corrupted hash: verify_checksums returns one verdict per recorded
/// checksum *in recording order*, each equal to verify_checksum for that algorithm.
fn multi_case(t: &mut Tally, dir: &Path, name: &str, content: &[u8], algos: &[&str], wrong: u32, via_text: bool) {
    t.evals += 1;
    t.validated += 1;
    t.transitions += 1;
    let patch = md::classify(name.as_bytes()) == md::Class::Patch;
    let path = dir.join(name);
    let case = || json!({"name": name, "content": bytes_json(content), "algos": algos, "wrong_mask": wrong, "via_text": via_text});
    if std::fs::write(&path, content).is_err() {
        mc_core::run::machinery_fault("cannot write a scratch file");
    }
    let recorded: Vec<(String, String, String)> = algos
        .iter()
        .enumerate()
        .map(|(i, a)| {
            let truth = model_hash(a, content, patch);
            let rec = if wrong >> i & 1 == 1 {
                let mut c: Vec<char> = truth.chars().collect();
                let k = (i * 7) % c.len();
                c[k] = flip_hex(c[k]);
                c.into_iter().collect()
            } else {
                truth.clone()
            };
            (a.to_string(), rec, truth)
        })
        .collect();
    let r = guard(|| {
        let di = if via_text {
            let f = File { name: name.as_bytes().to_vec(), checksums: recorded.iter().map(|(a, r, _)| (a.clone(), r.clone())).collect(), size: if patch { None } else { Some(content.len() as u64) } };
            let m = Model { rcsid: None, distfiles: if patch { vec![] } else { vec![f.clone()] }, patchfiles: if patch { vec![f] } else { vec![] } };
            Distinfo::from_bytes(&md::serialise(&m))
        } else {
            let mut d = Distinfo::new();
            d.insert(Entry::new(name, &path, recorded.iter().map(|(a, r, _)| Checksum::new(digest_of(a), r.clone())).collect(), if patch { None } else { Some(content.len() as u64) }));
            d
        };
        let all = di.verify_checksums(&path);
        let each: Vec<_> = recorded.iter().map(|(a, _, _)| di.verify_checksum(&path, digest_of(a))).collect();
        let via_entry = di.find_entry(&path).ok().map(|e| e.verify_checksums(&path));
        (all, each, via_entry)
    });
    let (all, each, via_entry) = match r {
        Ok(x) => x,
        Err(m) => {
            t.violation(Violation::new("multi", case(), json!("returns"), json!(format!("panic: {}", m)), "verification panicked"));
            return;
        }
    };
    let show = |v: &Result<Digest, DistinfoError>| match v {
        Ok(d) => json!({"ok": d.to_string()}),
        Err(e) => err_json(e),
    };
    let verdict_ok = |v: &Result<Digest, DistinfoError>, (a, rec, truth): &(String, String, String)| -> bool {
        if rec == truth {
            matches!(v, Ok(d) if d.to_string() == *a)
        } else {
            matches!(v, Err(DistinfoError::Checksum(_, d, exp, act)) if d.to_string() == *a && exp == rec && act == truth)
        }
    };
    let want: Vec<Value> = recorded.iter().map(|(a, rec, truth)| if rec == truth { json!({"ok": a}) } else { json!({"Checksum": {"algo": a, "expected": rec, "actual": truth}}) }).collect();
    let lists: Vec<(&str, &Vec<Result<Digest, DistinfoError>>)> = match &via_entry {
        Some(v) => vec![("Distinfo::verify_checksums", &all), ("verify_checksum per algorithm", &each), ("Entry::verify_checksums", v)],
        None => {
            t.violation(Violation::new("multi", case(), json!("found"), json!("NotFound"), "find_entry must locate the entry from its full path"));
            return;
        }
    };
    for (what, l) in lists {
        if l.len() != recorded.len() || !l.iter().zip(recorded.iter()).all(|(v, r)| verdict_ok(v, r)) {
            t.violation(Violation::new("multi", case(), json!(want), json!(l.iter().map(show).collect::<Vec<_>>()), &format!("{}: one verdict per recorded checksum, in recording order, each about its own algorithm and hash", what)));
            return;
        }
    }
    if wrong != 0 {
        t.nontrivial += 1;
    }
    t.outcome(if wrong == 0 { "multi/all-match" } else if wrong + 1 == 1 << algos.len() { "multi/all-mismatch" } else { "multi/mixed" });
}

/// Every ordered selection of 1..=3 of the six algorithms, and all six in 12 orders.
fn algo_orders() -> Vec<Vec<&'static str>> {
    let mut out: Vec<Vec<&'static str>> = vec![];
    for a in 0..6 {
        out.push(vec![ALGOS[a]]);
        for b in 0..6 {
            if b == a {
                continue;
            }
            out.push(vec![ALGOS[a], ALGOS[b]]);
            for c in 0..6 {
                if c == a || c == b {
                    continue;
                }
                out.push(vec![ALGOS[a], ALGOS[b], ALGOS[c]]);
            }
        }
    }
    for rot in 0..6 {
        let fwd: Vec<&str> = (0..6).map(|i| ALGOS[(rot + i) % 6]).collect();
        let mut rev = fwd.clone();
        rev.reverse();
        out.push(fwd);
        out.push(rev);
    }
    out
}

fn contents(max_lines: usize) -> Vec<Vec<u8>> {
    let mut out = vec![];
    let mut pre = vec![];
    let mut visit = |s: &[usize]| {
        let mut c = vec![];
        for i in s {
            c.extend_from_slice(LINES[*i]);
        }
        out.push(c);
    };
    // 'z' (unterminated) may only come last
    seqs::dfs(LINES.len(), max_lines, &mut pre, &|s: &[usize]| s.len() >= 2 && s[..s.len() - 1].contains(&5), &mut visit);
    // CR LF line endings and a final line without terminator holding the marker
    out.push(b"a\r\nb\r\n".to_vec());
    out.push(b"a\n$NetBSD$".to_vec());
    out.push(b"a\n# $NetBSD".to_vec());
    out.push(b"$NetBSD".to_vec());
    // near misses of the marker: only lines containing exactly "$NetBSD" go
    for near in [&b"see NetBSD PR 1\n"[..], b"$netbsd$\n", b"$NETBSD: x $\n", b"$Id$\n", b"$ NetBSD$\n", b"$FreeBSD$\n", b"$Net BSD$\n", b"NetBSD$\n", b"$NetBS D$\n", b"\\$NetBSD$\n"] {
        out.push([b"a\n".as_slice(), near, b"b\n"].concat());
        out.push(near.to_vec());
        out.push([near, b"$NetBSD$\n", near].concat());
    }
    // marker lines that are not UTF-8
    for bad in [&b"$NetBSD: patch-aa,v 1.1 caf\xe9 $\n"[..], b"\xff $NetBSD$\n", b"\x80$NetBSD\n"] {
        out.push([b"a\n".as_slice(), bad, b"b\n"].concat());
        out.push([bad, b"kept \xe9\n"].concat());
    }
    // scale: files larger than any plausible read buffer
    for len in [4095usize, 4096, 4097, 65_535, 65_536, 65_537, 1_048_577] {
        let mut c: Vec<u8> = (0..len).map(|i| ((i * 31 + 7) % 251) as u8).collect();
        // a marker line in the middle and an unterminated tail
        let mid = len / 2;
        c.splice(mid..mid, b"\n+ $NetBSD: big,v 1.1 $\n".iter().copied());
        out.push(c);
    }
    out
}

fn flip_hex(c: char) -> char {
    if c == '0' { '1' } else if c == 'f' { 'e' } else if c.is_ascii_digit() || c.is_ascii_lowercase() { ((c as u8) ^ 1) as char } else { '0' }
}

fn sweep_content(run: &Run, t: &mut Tally, dir: &Path, content: &[u8], algos: &[&str], all_positions: bool) {
    // files below DIST_SUBDIR-style directories: verification from the full path
    if all_positions {
        for name in ["e/d/f.tgz", "e/d/patch-aa", "d/f.tgz"] {
            let patch = name.contains("patch-");
            for algo in algos {
                let truth = model_hash(algo, content, patch);
                let len = content.len() as u64;
                for via_text in [false, true] {
                    verify_case(t, dir, name, content, algo, &truth, Some(len), via_text);
                    verify_case(t, dir, name, content, algo, &format!("{}0", truth), Some(len + 1), via_text);
                }
            }
        }
    }
    for name in ["f.tgz", "patch-aa"] {
        let patch = name.starts_with("patch-");
        for algo in algos {
            let truth = model_hash(algo, content, patch);
            let len = content.len() as u64;
            for via_text in [false, true] {
                verify_case(t, dir, name, content, algo, &truth, Some(len), via_text);
            }
            // recorded-hash corruptions
            let hc: Vec<char> = truth.chars().collect();
            let positions: Vec<usize> = if all_positions { (0..hc.len()).collect() } else { vec![0, hc.len() / 2, hc.len() - 1] };
            for p in positions {
                let mut c = hc.clone();
                c[p] = flip_hex(c[p]);
                let bad: String = c.into_iter().collect();
                verify_case(t, dir, name, content, algo, &bad, Some(len), p % 2 == 0);
            }
            verify_case(t, dir, name, content, algo, &truth[..truth.len() - 1], Some(len), false);
            verify_case(t, dir, name, content, algo, &format!("{}0", truth), Some(len), true);
            verify_case(t, dir, name, content, algo, &truth.to_uppercase().replace(|c: char| c.is_ascii_digit(), "g"), Some(len), false);
            // the digest is lower-case hex: an upper-cased or case-flipped record is a different string,
            // and so is one with a trailing blank or newline (recordable through the API only)
            if truth.chars().any(|c| c.is_ascii_lowercase()) {
                verify_case(t, dir, name, content, algo, &truth.to_uppercase(), Some(len), false);
                let k = truth.find(|c: char| c.is_ascii_lowercase()).unwrap();
                let flipped = format!("{}{}{}", &truth[..k], truth[k..k + 1].to_uppercase(), &truth[k + 1..]);
                verify_case(t, dir, name, content, algo, &flipped, Some(len), true);
            }
            verify_case(t, dir, name, content, algo, &format!("{} ", truth), Some(len), false);
            verify_case(t, dir, name, content, algo, &format!("{}\n", truth), Some(len), false);
            verify_case(t, dir, name, content, algo, &format!(" {}", truth), Some(len), false);
            // recorded-size corruptions and absence
            for s in [Some(len + 1), len.checked_sub(1), if len > 0 { Some(0) } else { None }, Some(u64::MAX), Some(len + (1 << 32)), Some(len + (1 << 31)), Some(len + (1 << 63)), Some(len + 256), Some(len + 65536)] {
                if s.is_some() {
                    verify_case(t, dir, name, content, algo, &truth, s, false);
                }
            }
            verify_case(t, dir, name, content, algo, &truth, None, true);
            // file corruptions: recorded values stay those of the original content
            if content.len() <= 24 && (all_positions || algo == &algos[0]) {
                for i in 0..=content.len() {
                    let mut variants: Vec<Vec<u8>> = vec![];
                    if i < content.len() {
                        let mut c = content.to_vec();
                        c[i] = c[i].wrapping_add(1);
                        variants.push(c);
                        let mut c = content.to_vec();
                        c.remove(i);
                        variants.push(c);
                    }
                    let mut c = content.to_vec();
                    c.insert(i, b'q');
                    variants.push(c);
                    for v in variants {
                        verify_case(t, dir, name, &v, algo, &truth, Some(len), i % 2 == 0);
                    }
                }
            }
        }
    }
    let _ = run;
}

// ---- lookup ----

const RECORDED: [&str; 6] = ["f", "d/f", "e/d/f", "x/f", "g", ""];

fn lookup_model(recorded: &[String], path: &str) -> Option<String> {
    let comps: Vec<&str> = path.split('/').filter(|c| !c.is_empty()).collect();
    for k in 1..=comps.len() {
        let suffix = comps[comps.len() - k..].join("/");
        if recorded.iter().any(|r| *r == suffix) {
            return Some(suffix);
        }
    }
    // the longest trailing sub-path of an absolute path is the path itself
    if path.starts_with('/') {
        let whole = format!("/{}", comps.join("/"));
        if recorded.iter().any(|r| *r == whole) {
            return Some(whole);
        }
    }
    None
}

/// `how`: 0 = entries inserted through the API; 1..=4 = the distinfo is parsed from text in which
/// each name is recorded by checksum + size lines, a size line only, a checksum line only, or the
/// size line before the checksum line.
fn check_lookup(t: &mut Tally, recorded: &[String], path: &str, how: usize) {
    t.evals += 1;
    t.validated += 1;
    t.transitions += 1;
    let case = || json!({"recorded": recorded, "lookup": path, "how": how});
    let want = lookup_model(recorded, path);
    let r = guard(|| {
        let mut d = Distinfo::new();
        if how == 0 {
            for (i, n) in recorded.iter().enumerate() {
                d.insert(Entry::new(n, "/nonexistent", vec![Checksum::new(Digest::SHA1, format!("{:040x}", i))], Some(i as u64)));
            }
        } else {
            let mut text = b"$NetBSD$\n\n".to_vec();
            for (i, n) in recorded.iter().enumerate() {
                let ck = format!("SHA1 ({}) = {:040x}\n", n, i);
                let sz = format!("Size ({}) = {} bytes\n", n, i);
                // vary the recording style per name so that mixed files are covered as well
                let style = if how == 5 { 1 + (i % 4) } else { how };
                let lines = match style {
                    1 => format!("{}{}", ck, sz),
                    2 => sz,
                    3 => ck,
                    _ => format!("{}{}", sz, ck),
                };
                text.extend_from_slice(lines.as_bytes());
            }
            d = Distinfo::from_bytes(&text);
        }
        let found = d.find_entry(PathBuf::from(path)).map(|e| e.filename.to_string_lossy().into_owned()).map_err(|e| matches!(e, DistinfoError::NotFound));
        // the verifying entry points must report the same miss
        if found.is_err() {
            let all = d.verify_checksums(PathBuf::from(path));
            let ok = all.len() == 1
                && matches!(all[0], Err(DistinfoError::NotFound))
                && matches!(d.verify_size(PathBuf::from(path)), Err(DistinfoError::NotFound))
                && matches!(d.verify_checksum(PathBuf::from(path), Digest::SHA1), Err(DistinfoError::NotFound));
            if !ok {
                return Err(false);
            }
        }
        found
    });
    match (r, &want) {
        (Ok(Ok(got)), Some(w)) if got == *w => {
            let depth = w.matches('/').count();
            t.outcome(if depth == 0 { "lookup/found-by-file-name" } else { "lookup/found-by-sub-path" });
            if recorded.len() >= 2 {
                t.nontrivial += 1;
            }
        }
        (Ok(Err(true)), None) => t.outcome("lookup/not-found"),
        (got, _) => t.violation(Violation::new("lookup", case(), json!(want), json!(format!("{:?}", got)), "find_entry must return the entry of the shortest recorded trailing sub-path, else NotFound")),
    }
}

/// Lookups with names and paths that are not UTF-8 (bytes, not text): recorded through the API.
fn check_lookup_bytes(t: &mut Tally, recorded: &[&[u8]], path: &[u8]) {
    use std::os::unix::ffi::OsStrExt;
    t.evals += 1;
    t.validated += 1;
    t.transitions += 1;
    let comps: Vec<&[u8]> = path.split(|c| *c == b'/').filter(|c| !c.is_empty()).collect();
    let mut want: Option<Vec<u8>> = None;
    for k in 1..=comps.len() {
        let suffix = comps[comps.len() - k..].join(&b'/');
        if recorded.iter().any(|r| **r == suffix[..]) {
            want = Some(suffix);
            break;
        }
    }
    let case = || json!({"recorded": recorded.iter().map(|r| bytes_json(r)).collect::<Vec<_>>(), "lookup": bytes_json(path)});
    let r = guard(|| {
        let mut d = Distinfo::new();
        for (i, n) in recorded.iter().enumerate() {
            d.insert(Entry::new(std::ffi::OsStr::from_bytes(n), "/nonexistent", vec![Checksum::new(Digest::SHA1, format!("{:040x}", i))], Some(i as u64)));
        }
        d.find_entry(std::path::Path::new(std::ffi::OsStr::from_bytes(path))).ok().map(|e| e.filename.as_os_str().as_bytes().to_vec())
    });
    match r {
        Ok(got) if got == want => {
            t.nontrivial += 1;
            t.outcome(if want.is_some() { "lookup/bytes-found" } else { "lookup/bytes-not-found" });
        }
        other => t.violation(Violation::new("lookup-bytes", case(), json!(want.as_ref().map(|w| bytes_json(w))), json!(format!("{:?}", other)), "find_entry must return the entry of the shortest recorded trailing sub-path, whatever bytes the names are made of")),
    }
}

fn replay(run: &Run, doc: &Value) -> Option<Violation> {
    let c = &doc["case"];
    let mut t = Tally::new();
    match doc["kind"].as_str() {
        Some("lookup") => {
            let rec: Vec<String> = c["recorded"].as_array().map(|a| a.iter().filter_map(|x| x.as_str().map(|s| s.to_string())).collect()).unwrap_or_default();
            check_lookup(&mut t, &rec, c["lookup"].as_str().unwrap_or(""), c["how"].as_u64().unwrap_or(0) as usize);
        }
        Some("lookup-bytes") => {
            let rec: Vec<Vec<u8>> = c["recorded"].as_array().map(|a| a.iter().map(bytes_from_json).collect()).unwrap_or_default();
            let refs: Vec<&[u8]> = rec.iter().map(|r| r.as_slice()).collect();
            check_lookup_bytes(&mut t, &refs, &bytes_from_json(&c["lookup"]));
        }
        Some("history") => {
            // re-run the recorded history (a panic is a reproduction too)
            let r = guard(|| {
                let mut t = Tally::new();
            let ins = ["f", "d/f", "e/d/f", "x/f"];
            let root = "/scratch/lookup-root".to_string();
            let look: Vec<String> = vec![format!("{}/e/d/f", root), format!("{}/d/f", root), "f".to_string()];
            let mut d = Distinfo::new();
            let mut recorded: Vec<String> = vec![];
            for (step, op) in c["history"].as_array().cloned().unwrap_or_default().iter().enumerate() {
                let op = op.as_str().unwrap_or("");
                if let Some(n) = op.strip_prefix("insert ") {
                    if !recorded.iter().any(|r| r == n) {
                        recorded.push(n.to_string());
                    }
                    let k = ins.iter().position(|x| *x == n).unwrap_or(0);
                    d.insert(Entry::new(n, "/nonexistent", vec![Checksum::new(Digest::SHA1, format!("{:040x}", k))], Some(k as u64)));
                } else if let Some(p) = op.strip_prefix("find_entry ") {
                    let tail = p.rsplit_once("/e/d/f").map(|_| look[0].clone()).or_else(|| p.ends_with("/d/f").then(|| look[1].clone())).unwrap_or_else(|| "f".to_string());
                    let _ = d.find_entry(PathBuf::from(tail));
                }
                for p in &look {
                    let want = lookup_model(&recorded, p);
                    let got = d.find_entry(PathBuf::from(p)).ok().map(|e| e.filename.to_string_lossy().into_owned());
                    if got != want {
                        t.violation(Violation::new("history", c.clone(), json!({"after_step": step, "lookup": p, "entry": want}), json!(got), "find_entry must reflect what has been inserted so far, whatever was looked up before"));
                        return t.violations.into_iter().next();
                    }
                }
            }
                None
            });
            return match r {
                Ok(v) => v,
                Err(m) => Some(Violation::new("history", c.clone(), json!("returns"), json!(format!("panic: {}", m)), "Distinfo panicked")),
            };
        }
        Some("multi") => {
            let dir = run.scratch_dir().join("replay");
            let _ = std::fs::create_dir_all(&dir);
            let algos: Vec<&str> = c["algos"].as_array().map(|a| a.iter().filter_map(|x| x.as_str()).collect()).unwrap_or_default();
            multi_case(&mut t, &dir, c["name"].as_str().unwrap_or("f.tgz"), &bytes_from_json(&c["content"]), &algos, c["wrong_mask"].as_u64().unwrap_or(0) as u32, c["via_text"].as_bool().unwrap_or(false));
        }
        _ => {
            let dir = run.scratch_dir().join("replay");
            let _ = std::fs::create_dir_all(&dir);
            verify_case(
                &mut t,
                &dir,
                c["name"].as_str().unwrap_or("f.tgz"),
                &bytes_from_json(&c["content"]),
                c["algo"].as_str().unwrap_or("SHA1"),
                c["recorded_hash"].as_str().unwrap_or(""),
                c["recorded_size"].as_u64(),
                c["via_text"].as_bool().unwrap_or(false),
            );
        }
    }
    t.violations.into_iter().next()
}

fn main() {
    let run = Run::from_args("C12");
    if let Some(doc) = run.replay_case() {
        let a = replay(&run, doc);
        let b = replay(&run, doc);
        let _ = std::fs::remove_dir_all(run.scratch_dir());
        run.finish_replay(a, b);
    }
    let bad = mdigest::self_test();
    if !bad.is_empty() {
        run.fault(&format!("digest oracle fails its published vectors: {:?}", bad));
    }
    run.rule(
        "configurations materialised on a scratch directory: file content = every sequence of <= N \
         lines over {a, a '$NetBSD: ...$' line, a line containing $NetBSD$, empty line, NUL/0xFF \
         line, unterminated 'z' (last only)} x {distfile f.tgz, patch patch-aa} x algorithms, with \
         the distinfo built through the API and by parsing generated text. Checked: correct values \
         verify; calculate_checksum == model digest (patches: without $NetBSD lines); every single \
         hex-digit change of the recorded hash (all positions), truncation, extension, case/garbage \
         -> Checksum(name, algo, expected, actual); recorded size +-1 / 0 / 2^64-1 -> Size(name, \
         expected, actual); every byte of a short file incremented / deleted / inserted -> verdict \
         recomputed from the model digest; unrecorded algorithm / size -> Missing*. Lookup: every \
         subset of 6 recorded names (nested sub-directory tails, an empty name) in both recording \
         orders x 10 lookup paths, distfiles and patches. Non-trivial = configurations where something does not match.",
    );
    run.assume("digest oracle = RustCrypto one-shot functions, self-tested against published vectors (mc/core/src/model/digest.rs)");
    run.assume("only plain files on a local file system; no symlinks or permission errors");

    let scratch = run.scratch_dir();
    let nlines = run.pick(3, 4);
    let cs = contents(nlines);
    run.bound(format!("{} contents of <= {} lines x 2 kinds x {} algorithms; every hash position for contents of <= 2 lines, 3 positions otherwise", cs.len(), nlines, if run.thorough() { 6 } else { 6 }));
    par_items(&run, "C12 contents", &cs, |i, content, t| {
        t.states += 1;
        let dir = scratch.join(format!("c{}", i));
        if std::fs::create_dir_all(&dir).is_err() {
            return;
        }
        let lines = content.iter().filter(|b| **b == b'\n').count() + usize::from(content.ends_with(b"z"));
        let small = lines <= 2;
        let algos: Vec<&str> = if run.thorough() || small { ALGOS.to_vec() } else { vec![ALGOS[i % 6], ALGOS[(i + 3) % 6]] };
        sweep_content(&run, t, &dir, content, &algos, small && (run.thorough() || lines <= 1));
        let _ = std::fs::remove_dir_all(&dir);
        t.sample(run.seed, i as u64, || json!({"content": bytes_json(content), "kinds": ["f.tgz", "patch-aa"], "algorithms": algos}));
    });

    // lookup (entries point to a path that does not exist, nothing is opened: the root is just text)
    let root = "/scratch/lookup-root".to_string();
    let paths: Vec<String> = vec![
        format!("{}/f", root), format!("{}/d/f", root), format!("{}/e/d/f", root), format!("{}/x/d/f", root),
        format!("{}/x/f", root), format!("{}/g", root), format!("{}/h", root), "f".to_string(), "d/f".to_string(), "q/e/d/f".to_string(),
    ];
    run.bound("lookup: 64 recorded-name subsets (incl. an empty recorded name) x 2 recording orders x 10 lookup paths x {distfile names, patch names} x {inserted through the API, parsed from text with checksum+size / size only / checksum only / size first / mixed lines per name}");
    let masks: Vec<u32> = (0..64).collect();
    par_items(&run, "C12 lookup", &masks, |_, mask, t| {
        for patch in [false, true] {
            let rec: Vec<String> = RECORDED
                .iter()
                .enumerate()
                .filter(|(i, _)| mask >> i & 1 == 1)
                .map(|(_, n)| if patch && !n.is_empty() { match n.rfind('/') { Some(k) => format!("{}/patch-{}", &n[..k], &n[k + 1..]), None => format!("patch-{}", n) } } else { n.to_string() })
                .collect();
            // the subsets without "f" and "d/f" also record a file under its full absolute name (found only as the whole path)
            let mut rec = rec;
            if mask % 4 == 0 {
                rec.push(if patch { format!("{}/x/d/patch-f", root) } else { format!("{}/x/d/f", root) });
            }
            // both recording orders: the entry found must not depend on which name was recorded first
            let mut rev = rec.clone();
            rev.reverse();
            for p in &paths {
                let p = if patch { match p.rfind('/') { Some(k) => format!("{}/patch-{}", &p[..k], &p[k + 1..]), None => format!("patch-{}", p) } } else { p.clone() };
                t.states += 2;
                check_lookup(t, &rec, &p, 0);
                check_lookup(t, &rev, &p, 0);
                // parsed from text; size lines exist for distfiles only, an empty name cannot be written
                if !rec.iter().any(|n| n.is_empty()) {
                    for how in if patch { vec![3usize] } else { vec![1usize, 2, 3, 4, 5] } {
                        t.states += 2;
                        check_lookup(t, &rec, &p, how);
                        check_lookup(t, &rev, &p, how);
                    }
                }
            }
        }
    });
    // names that are not UTF-8, as file names and as sub-directory components
    {
        let mut t = Tally::new();
        let names: [&[u8]; 6] = [b"f\xff", b"d\xe9/f", b"e/d\xff/f\xfe", b"d\xe9/patch-a\xff", b"patch-\xe9", b"x/f\xff"];
        let paths: [&[u8]; 8] = [b"/w/f\xff", b"/w/d\xe9/f", b"/w/e/d\xff/f\xfe", b"/w/q/d\xff/f\xfe", b"/w/d\xe9/patch-a\xff", b"/w/patch-\xe9", b"d\xe9/f", b"/w/x/f\xfe"];
        for mask in 0u32..64 {
            let rec: Vec<&[u8]> = names.iter().enumerate().filter(|(i, _)| mask >> i & 1 == 1).map(|(_, n)| *n).collect();
            for p in paths {
                t.states += 1;
                check_lookup_bytes(&mut t, &rec, p);
            }
        }
        run.bound("lookup with non-UTF-8 names: 64 subsets of 6 recorded names (bytes >= 0x80 in file names and in sub-directory components) x 8 lookup paths");
        run.merge(t);
    }
    // histories on ONE object: every sequence of <= 4 operations over {insert one of 4 names,
    // look up one of 3 paths}; after every operation each lookup path is resolved again and must
    // give the shortest recorded trailing sub-path of what has been inserted so far
    {
        let ins = ["f", "d/f", "e/d/f", "x/f"];
        let look: Vec<String> = vec![format!("{}/e/d/f", root), format!("{}/d/f", root), "f".to_string()];
        let nops = ins.len() + look.len();
        let depth = run.pick(4, 5);
        run.bound(format!("histories on one Distinfo: all {} sequences of <= {} operations over 4 inserts and 3 lookups, every lookup path re-resolved after every operation", seqs::count(nops, depth), depth));
        seqs::par_seqs(&run, "C12 histories", nops, depth, 1, |_| false, |q, t| {
            if q.is_empty() {
                return;
            }
            t.states += 1;
            let case = || json!({"history": q.iter().map(|o| if *o < ins.len() { format!("insert {}", ins[*o]) } else { format!("find_entry {}", look[*o - ins.len()]) }).collect::<Vec<_>>()});
            let r = guard(|| {
                let mut d = Distinfo::new();
                let mut recorded: Vec<String> = vec![];
                for (step, o) in q.iter().enumerate() {
                    if *o < ins.len() {
                        if !recorded.iter().any(|r| r == ins[*o]) {
                            recorded.push(ins[*o].to_string());
                        }
                        d.insert(Entry::new(ins[*o], "/nonexistent", vec![Checksum::new(Digest::SHA1, format!("{:040x}", *o))], Some(*o as u64)));
                    } else {
                        let _ = d.find_entry(PathBuf::from(&look[*o - ins.len()]));
                    }
                    // every path, after every operation
                    for p in &look {
                        let want = lookup_model(&recorded, p);
                        let got = d.find_entry(PathBuf::from(p)).ok().map(|e| e.filename.to_string_lossy().into_owned());
                        if got != want {
                            return Some((step, p.clone(), want, got));
                        }
                    }
                }
                None
            });
            t.evals += (q.len() * look.len()) as u64;
            t.validated += (q.len() * look.len()) as u64;
            t.transitions += q.len() as u64;
            match r {
                Ok(None) => {
                    t.nontrivial += 1;
                    t.outcome("history/consistent");
                }
                Ok(Some((step, p, want, got))) => t.violation(Violation::new("history", case(), json!({"after_step": step, "lookup": p, "entry": want}), json!(got), "find_entry must reflect what has been inserted so far, whatever was looked up before")),
                Err(m) => t.violation(Violation::new("history", case(), json!("returns"), json!(format!("panic: {}", m)), "Distinfo panicked")),
            }
        });
    }
    // several checksums per file, in every recording order
    {
        let orders = algo_orders();
        run.bound(format!("multi-checksum entries: {} recording orders (every ordered selection of 1..3 algorithms, all six in 12 orders) x every subset of corrupted hashes (<= 3 algorithms; none/each single/all for six) x {{f.tgz, patch-aa}} x {{API, parsed text}}", orders.len()));
        par_items(&run, "C12 multi-checksum", &orders, |i, algos, t| {
            let dir = scratch.join(format!("m{}", i));
            if std::fs::create_dir_all(&dir).is_err() {
                return;
            }
            let content: &[u8] = b"a\n$NetBSD: p,v 1.1 $\nb\n";
            let masks: Vec<u32> = if algos.len() <= 3 { (0..1u32 << algos.len()).collect() } else { (0..algos.len()).map(|k| 1u32 << k).chain([0, (1 << algos.len()) - 1]).collect() };
            for name in ["f.tgz", "patch-aa"] {
                for m in &masks {
                    for via_text in [false, true] {
                        t.states += 1;
                        multi_case(t, &dir, name, content, algos, *m, via_text);
                    }
                }
            }
            let _ = std::fs::remove_dir_all(&dir);
        });
    }
    run.finish();
}
