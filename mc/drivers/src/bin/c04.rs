//! C04 - brace alternation matches exactly the union of its csh-style
//! expansions; a brace pattern compiles exactly when its braces nest properly.

use mc_core::model::brace;
use mc_core::seqs;
use mc_core::{guard, Run, Tally, Violation};
use pkgsrc::Pattern;
use serde_json::{json, Value};
use std::collections::BTreeSet;

const CH: [&str; 5] = ["{", "}", ",", "a", "b"];
const TOK: [&str; 12] = ["{", "}", ",", "p", "-", "1", "2", ">=", "<", "*", "[0-9]", "["];

const POOL: [&str; 22] = [
    "p-1", "p-2", "p-12", "p-21", "pp-1", "p", "-1", "1", "p-", "p-p-1", "p-1-2", "2-1", "pp", "12",
    "p1", "p-11", "p--1", "", "-", "p2", "1-1", "p-22",
];

fn flat_match(e: &str, name: &str) -> bool {
    // Whether one expansion matches: decided by the composed reference model (dewey, glob,
    // plain) wherever the expansion lies inside the modelled subset and the verdict does not
    // hinge on the weight of a single letter; by the real non-brace matcher otherwise ('**',
    // letter-weight-dependent bounds).  So a leaf-matching fault reachable only through the
    // alternation path is not on both sides of the comparison.
    use mc_core::model::dewey::LetterWeight;
    use mc_core::model::pattern as mpat;
    // whether a comparison pattern without a base ('>=1') compiles is left open by C02: the
    // library decides for such a leaf
    if !e.contains("**") && !e.starts_with(['<', '>']) {
        let (r, a) = (mpat::matches_flat(e, name, LetterWeight::Rank), mpat::matches_flat(e, name, LetterWeight::AsciiLower));
        if r == a {
            return r.unwrap_or(false);
        }
    }
    match Pattern::new(e) {
        Ok(p) => p.matches(name),
        Err(_) => false,
    }
}

/// Strings that still contain braces: the pattern itself, and the pattern with one group
/// replaced by one of its alternatives.  None of them is an expansion, so none has a claim to
/// match (unless it happens to equal one).
fn partial_names(p: &str, out: &mut BTreeSet<String>, cap: usize) {
    out.insert(p.to_string());
    let s: Vec<char> = p.chars().collect();
    for i in 0..s.len() {
        if s[i] != '{' {
            continue;
        }
        for j in i + 1..s.len() {
            if s[j] != '}' {
                continue;
            }
            let inner: String = s[i + 1..j].iter().collect();
            for piece in inner.split(',') {
                if out.len() >= cap {
                    return;
                }
                out.insert(s[..i].iter().collect::<String>() + piece + &s[j + 1..].iter().collect::<String>());
            }
        }
    }
    for extra in ["{", "}", ",", "{}", "{,}", "{a,b}", "a,b", "{a", "b}"] {
        out.insert(extra.to_string());
    }
}

/// Probe names obtained by pairing a '{' with a '}' that is not its own (the
/// mistake an expansion loop can make): substitute each comma-separated piece
/// of the text between them, expand what remains if it is balanced.
fn wrong_pairing_names(p: &str, out: &mut BTreeSet<String>, cap: usize) {
    let s: Vec<char> = p.chars().collect();
    for i in 0..s.len() {
        if s[i] != '{' {
            continue;
        }
        for j in i + 1..s.len() {
            if s[j] != '}' {
                continue;
            }
            let inner: String = s[i + 1..j].iter().collect();
            for piece in inner.split(',') {
                let cand: String = s[..i].iter().collect::<String>() + piece + &s[j + 1..].iter().collect::<String>();
                if let Some(ex) = brace::expand(&cand, 256) {
                    for e in ex {
                        if out.len() >= cap {
                            return;
                        }
                        if !e.contains('{') && !e.contains('}') {
                            out.insert(e);
                        }
                    }
                }
            }
        }
    }
}

fn case(p: &str, name: Option<&str>) -> Value {
    match name {
        Some(n) => json!({"pattern": p, "name": n}),
        None => json!({"pattern": p}),
    }
}

fn check(t: &mut Tally, p: &str, base_names: &[String], literal_expansions: bool) {
    if !p.contains('{') && !p.contains('}') {
        t.outcome("no-braces");
        return;
    }
    t.evals += 1;
    t.validated += 1;
    let model = brace::expand(p, 4096);
    let compiled = match guard(|| Pattern::new(p)) {
        Ok(r) => r,
        Err(m) => {
            t.violation(Violation::new("brace", case(p, None), json!("compile returns"), json!(format!("panic: {}", m)), "compiling panicked"));
            return;
        }
    };
    let balanced = brace::balanced(p);
    if compiled.is_ok() != balanced {
        t.violation(Violation::new(
            "brace",
            case(p, None),
            json!({"compiles": balanced}),
            json!({"compiles": compiled.is_ok()}),
            "a brace pattern must compile exactly when its braces are properly nested",
        ));
        return;
    }
    if !balanced {
        t.outcome("reject/unbalanced");
        return;
    }
    let pat = compiled.unwrap();
    let Some(ex) = model else {
        t.outcome("skipped/expansion-too-large");
        return;
    };
    let groups = p.matches('{').count();
    let nested = {
        let (mut d, mut mx) = (0, 0);
        for c in p.chars() {
            if c == '{' {
                d += 1;
                mx = mx.max(d);
            } else if c == '}' {
                d -= 1;
            }
        }
        mx >= 2
    };
    if groups >= 2 || nested {
        t.nontrivial += 1;
    }
    t.outcome(if nested { "accept/nested" } else if groups >= 2 { "accept/several-groups" } else { "accept/one-group" });

    let mut names: BTreeSet<String> = base_names.iter().cloned().collect();
    if literal_expansions {
        for e in &ex {
            names.insert(e.clone());
        }
    }
    wrong_pairing_names(p, &mut names, base_names.len() + ex.len() + 64);
    let cap = names.len() + 48;
    partial_names(p, &mut names, cap);
    for name in &names {
        t.evals += 1;
        t.validated += 1;
        t.transitions += 1;
        let want = match guard(|| ex.iter().any(|e| flat_match(e, name))) {
            Ok(w) => w,
            Err(m) => {
                t.violation(Violation::new("brace", case(p, Some(name)), json!("a verdict"), json!(format!("panic in expansion matcher: {}", m)), ""));
                continue;
            }
        };
        match guard(|| pat.matches(name)) {
            Ok(got) if got == want => {
                t.outcome(if want { "match" } else { "nomatch" });
            }
            Ok(got) => t.violation(Violation::new(
                "brace",
                case(p, Some(name)),
                json!({"matches": want, "expansion": ex}),
                json!({"matches": got}),
                "verdict differs from the union over the csh-style expansion",
            )),
            Err(m) => t.violation(Violation::new("brace", case(p, Some(name)), json!({"matches": want}), json!(format!("panic: {}", m)), "matching panicked")),
        }
    }
}

/// The very large patterns are described, not stored: ("group", n) = one group of n numbered
/// alternatives, ("cross", k) = two groups of k alternatives each; with their probe names.
fn large_pattern(kind: &str, n: usize) -> (String, Vec<(String, bool)>) {
    if kind == "group" {
        let alts: Vec<String> = (0..n).map(|i| format!("lib{}", i)).collect();
        let pat = format!("{{{}}}-1.0", alts.join(","));
        let names = vec![("lib0-1.0".to_string(), true), (format!("lib{}-1.0", n / 2), true), (format!("lib{}-1.0", n - 1), true), (format!("lib{}-1.0", n / 3 * 2 + 1), true), (format!("lib{}-1.0", n), false), ("lib-1.0".to_string(), false), (format!("lib{}-1.1", n / 2), false)];
        (pat, names)
    } else {
        let k = n;
        let a: Vec<String> = (0..k).map(|i| format!("a{}", i)).collect();
        let b: Vec<String> = (0..k).map(|i| format!("b{}", i)).collect();
        let pat = format!("{{{}}}-{{{}}}-2", a.join(","), b.join(","));
        let names = vec![("a0-b0-2".to_string(), true), (format!("a{}-b{}-2", k - 1, k - 1), true), (format!("a{}-b0-2", k - 1), true), (format!("a0-b{}-2", k - 1), true), (format!("a{}-b{}-2", k / 2, k / 3), true), (format!("a{}-b0-2", k), false), (format!("a0-b{}-2", k), false), ("a0-a0-2".to_string(), false)];
        (pat, names)
    }
}

fn check_large(t: &mut Tally, kind: &str, n: usize, only: Option<&str>) {
    t.states += 1;
    let (pat, names) = large_pattern(kind, n);
    let case = |name: Option<&str>| json!({"large": kind, "n": n, "name": name, "pattern_head": pat.chars().take(60).collect::<String>()});
    let compiled = match guard(|| Pattern::new(&pat)) {
        Ok(Ok(p)) => p,
        other => {
            t.violation(Violation::new("large", case(None), json!("compiles"), json!(format!("{:?}", other.map(|r| r.map(|_| ()).map_err(|e| e.to_string())))), "a properly nested brace pattern must compile"));
            return;
        }
    };
    for (name, want) in &names {
        if only.is_some() && only != Some(name.as_str()) {
            continue;
        }
        t.evals += 1;
        t.validated += 1;
        t.transitions += 1;
        match guard(|| compiled.matches(name)) {
            Ok(g) if g == *want => {
                t.nontrivial += 1;
                t.outcome(if *want { "large/member-matches" } else { "large/non-member-rejected" });
            }
            other => t.violation(Violation::new("large", case(Some(name)), json!(want), json!(format!("{:?}", other)), "a name matches exactly when it is one of the expansions, however many there are")),
        }
    }
}

fn ab_names() -> Vec<String> {
    let mut v = vec![];
    let mut pre = vec![];
    let a = ["a", "b"];
    let mut visit = |s: &[usize]| v.push(s.iter().map(|i| a[*i]).collect::<String>());
    seqs::dfs(2, 4, &mut pre, &|_| false, &mut visit);
    v
}

fn replay(doc: &Value) -> Option<Violation> {
    let c = &doc["case"];
    if doc["kind"] == "large" {
        let mut t = Tally::new();
        check_large(&mut t, c["large"].as_str().unwrap_or("group"), c["n"].as_u64().unwrap_or(1000) as usize, c["name"].as_str());
        return t.violations.into_iter().next();
    }
    let p = c["pattern"].as_str().unwrap_or("");
    let names: Vec<String> = c["name"].as_str().map(|s| vec![s.to_string()]).unwrap_or_default();
    let mut t = Tally::new();
    check(&mut t, p, &names, false);
    // the recorded name may only be reachable as a generated probe
    let want = c["name"].as_str();
    t.violations
        .into_iter()
        .find(|v| want.is_none() || v.case["name"].as_str() == want || v.case["name"].is_null())
}

fn main() {
    let run = Run::from_args("C04");
    if let Some(doc) = run.replay_case() {
        run.finish_replay(replay(doc), replay(doc));
    }
    run.rule(
        "(a) every string <= L over '{ } , a b': compile verdict vs proper nesting; for every \
         balanced one, every name in {a,b}^<=4, every string of its own model expansion, and every \
         string obtained by pairing a '{' with a '}' that is not its own, against an independent \
         recursive-descent expander (a name matches iff some expansion matches it as a pattern in \
         its own right, decided by the real non-brace matcher). (b) every token string <= M over \
         '{ } , p - 1 2 >= < * [0-9] [' against a 22-name pool (expansions are dewey / glob / plain / \
         invalid patterns). Non-trivial = balanced patterns with nested groups or several groups.",
    );
    run.assume("expansion set from mc/core/src/model/brace.rs; the per-expansion verdict from the composed dewey/glob/plain models, falling back to the implementation's own non-brace matcher only for '**' and for bounds whose verdict hinges on a single letter's weight");

    let l = run.pick(9, 12);
    let names = ab_names();
    run.bound(format!("(a) all {} strings of length <= {} over {:?}", seqs::count(5, l), l, CH));
    seqs::par_seqs(&run, "C04(a)", CH.len(), l, 3, |_| false, |s, t| {
        let p: String = s.iter().map(|i| CH[*i]).collect();
        check(t, &p, &names, true);
        t.sample(run.seed, s.iter().fold(3u64, |a, x| a * 7 + *x as u64), || json!({"pattern": p}));
    });

    let m = run.pick(6, 7);
    let pool: Vec<String> = POOL.iter().map(|s| s.to_string()).collect();
    run.bound(format!("(b) all {} token strings of length <= {} over {:?} x {} names", seqs::count(TOK.len(), m), m, TOK, pool.len()));
    // domain: at most 3 '*' per pattern (back-tracking cost is inherent to the notation)
    let prune = |s: &[usize]| s.iter().filter(|i| TOK[**i] == "*").count() > 3;
    seqs::par_seqs(&run, "C04(b)", TOK.len(), m, 2, prune, |s, t| {
        let p: String = s.iter().map(|i| TOK[*i]).collect();
        check(t, &p, &pool, true);
    });
    // scale: many alternatives, many groups, deep nesting
    {
        let mut t = Tally::new();
        let mut pats: Vec<String> = vec![];
        for n in [8usize, 16, 17, 33, 64, 200] {
            let alts: Vec<String> = (0..n).map(|i| format!("a{}", i)).collect();
            pats.push(format!("p{{{}}}-1", alts.join(",")));
            pats.push(format!("{{{},}}p-1", alts.join(",")));
            pats.push(format!("p-{{{}}}", (0..n).map(|i| i.to_string()).collect::<Vec<_>>().join(",")));
        }
        // large groups in which one alternative is itself pattern text
        for n in [15usize, 16, 17, 40, 100] {
            let alts: Vec<String> = (0..n).map(|i| format!("opt{}", i)).collect();
            pats.push(format!("py-{{{},x*}}-foo-1", alts.join(",")));
            pats.push(format!("py-{{x*,{}}}-foo-1", alts.join(",")));
            pats.push(format!("py-{{{},[xy]?z}}-foo-1", alts.join(",")));
            pats.push(format!("{{{},py-foo>=1}}", alts.join(",")));
            pats.push(format!("py-foo{{{},>=1}}", alts.join(",")));
        }
        // alternatives that collide under hand-written 32-bit hashes (a set of expansions keyed by
        // such a hash instead of the string loses one of them)
        for (a, b, _) in mc_core::chars::HASH_COLLISIONS {
            for (x, y) in [(a, b), (b, a)] {
                pats.push(format!("{{{},{}}}-[0-9]*", x, y));
                pats.push(format!("{{{},{}}}-1", x, y));
                pats.push(format!("{{{},zz,{}}}>=1", x, y));
            }
        }
        // a comma inside a bracket set inside a group still separates alternatives
        for p in ["{foo-[0-9,a]*,bar-1}", "{p[,]q,r}", "{[a,b]}", "p-{[1,2]*,x}", "{a[,b}", "{a],b}", "{mysql,mariadb}-[0-9]*", "{py27,py}-[0-9]*"] {
            pats.push(p.to_string());
        }
        // an expansion is "a pattern in its own right": a wildcard at its start matches a leading
        // '.' (and one after a '/') exactly as it does in the same glob written without braces
        for p in ["{*,lib*}-[0-9]*", "{?,a}x", "{a,b}/*", "{[.a],b}x", "{*,x}", "{.*,x}-1", "{?*,x}-1", "{a/?,b}b", "{[!a],a}profile-1.0"] {
            pats.push(p.to_string());
        }
        // a group without a comma is one alternative, whatever its text looks like in a shell
        // ("{9..13}" is the text "9..13", not a sequence)
        for p in ["python3{9..13}-[0-9]*", "{1..3}", "p{a..c}-1", "p-{1..3}", "{01..10}", "p{9..13,x}-1", "p{..}-1", "{a..c}{1..2}"] {
            pats.push(p.to_string());
        }
        // groups of 63 / 64 / 65 / 100 alternatives with an operator in front of the group, inside
        // every alternative, or behind it
        for n in [63usize, 64, 65, 100] {
            let nums: Vec<String> = (1..=n).map(|i| i.to_string()).collect();
            pats.push(format!("pkg>={{{}}}", nums.join(",")));
            pats.push(format!("pkg<{{{}}}", nums.join(",")));
            let libs: Vec<String> = (0..n).map(|i| format!("lib{}>1", i)).collect();
            pats.push(format!("{{{}}}", libs.join(",")));
            let plain: Vec<String> = (0..n).map(|i| format!("lib{}", i)).collect();
            pats.push(format!("{{{}}}>=1", plain.join(",")));
            pats.push(format!("{{{}}}-[0-9]*", plain.join(",")));
            pats.push(format!("{{{}}}-1", plain.join(",")));
        }
        // fixed text on both sides of a group whose alternatives carry the operator
        for p in ["pkg{>=1,<0}.5", "p{>=1,<1}.0", "p{>,<}1", "p{>=,<}1.0", "py-foo{>=1,<0}.5", "p{-1,>=2}.0", "{p,q}{>=1,<1}.5"] {
            pats.push(p.to_string());
        }
        // nested groups of >= 10 alternatives next to operators, inside and outside the groups
        for n in [9usize, 10, 11, 16, 24] {
            let nums: Vec<String> = (0..n).map(|i| format!("{}", 27 + i)).collect();
            let evens: Vec<String> = (0..n).map(|i| format!("{}", 2 * i)).collect();
            pats.push(format!("{{py{{{}}}-foo>=2,py-foo}}<5", nums.join(",")));
            pats.push(format!("{{py{{{}}}-foo,py-foo}}>=1<5", nums.join(",")));
            pats.push(format!("py-foo>=2.{{{}}}.3<3", evens.join(",")));
            pats.push(format!("py-foo>=0.{{{}}}<9", evens.join(",")));
            let ops: Vec<String> = (0..n).map(|i| format!("o{}>=1", i)).collect();
            pats.push(format!("{{{},py-foo>=1}}<5", ops.join(",")));
            pats.push(format!("{{{},py>=1}}-foo<5", ops.join(",")));
        }
        // a comparison operator to the left of a large group of bounds, and groups of operators
        for n in [15usize, 16, 17, 24, 25, 40] {
            let bounds: Vec<String> = (0..n).map(|i| format!("1.{}", i)).collect();
            pats.push(format!("py-foo>={{{}}}", bounds.join(",")));
            pats.push(format!("py-foo<{{{}}}", bounds.join(",")));
            pats.push(format!("{{py-foo>=,py-xyz-foo>}}{{{}}}", bounds.join(",")));
            let globs: Vec<String> = (0..n).map(|i| format!("o{}", i)).collect();
            pats.push(format!("{{{},py-*,py-x[xy]z-foo-?}}", globs.join(",")));
        }
        for g in [4usize, 6, 8, 10] {
            pats.push(format!("p{}-1", "{a,b}".repeat(g)));
            pats.push(format!("p{}-1", "{,a}".repeat(g)));
        }
        // many groups with a single expansion
        for g in [12usize, 16, 17, 18, 20, 33, 64, 130] {
            pats.push(format!("p{}-1", "{a}".repeat(g)));
            pats.push(format!("p{}{{a,b}}-1", "{}".repeat(g)));
        }
        for d in [4usize, 8, 16, 32] {
            pats.push(format!("p{}a{}-1", "{b,".repeat(d), "}".repeat(d)));
            pats.push(format!("{}p{}-1", "{".repeat(d), "}".repeat(d)));
            pats.push(format!("p{}a{}-1", "{".repeat(d), ",c}".repeat(d)));
        }
        let names: Vec<String> = ["p-1", "pa0-1", "pa7-1", "pa15-1", "pa16-1", "pa63-1", "pa199-1", "pa200-1", "a0p-1", "a16p-1", "p-0", "p-16", "p-199", "p-200",
            "foo-1", "foo-,", "a]*", "bar-1", "p,q", "p[q", "p[", "]q", "r", "a", "b]", "[a", "p-1", "p-[1", "2]*", "p-2]*", "p-x", "mysql-8.0-rc1", "mariadb-1-", "mysql-8.0", "py-1-2", "py27-3.0-1",
            "pkg-2.0", "pkg-0.2", "pkg-1", "p-2.0", "p-1.0", "p-0.5", "p-1", "py-foo-1.0", "py-foo-2.5", "py-foo-2.4.3", "py-foo-6", "py27-foo-3", "py27-foo-6", "py30-foo-1", "o3-4", "o3-1",
            "py-xyz-foo-1", "py-opt3-foo-1", "py-opt16-foo-1", "py-xyz-foo-2", "py-x-foo-1", "py-foo-1", "py-foo-2", "py-foo-0", "py-fooopt3", "opt3", "py-yaz-foo-1",
            "python311-3.11.4", "python39..13-1.0", "python39-1", "1..3", "2", "pa..c-1", "pb-1", "p-1..3", "p-2", "01..10", "05", "p9..13-1", "px-1", "p..-1", "a..c1..2", "b1", "pkg-70", "pkg-0.5", "pkg-100", "pkg-64", "lib3>1", "lib3-2", "lib3-1", "lib70-2", "lib63-1.5", "lib64-1", "lib99-0", ".profile-1.0", ".x", "a/.b", ".", ".-1", "..x", "lib.-1", ".x-1", "a/.", "/.x", "pab-1", "paaaa-1", "paaaaaaaaaaaa-1", "paaaaaaaaaaaaaaaaaa-1", "paaaaaaaaaaaaaaaaaaaa-1", "pabababab-1", "paaaaaaaaaa-1", "pb-1", "pa-1", "pbbbba-1", "pc-1", "pac-1", "pacccc-1"].iter().map(|s| s.to_string()).collect();
        let mut names = names;
        for (a, b, _) in mc_core::chars::HASH_COLLISIONS {
            names.push(format!("{}-1", a));
            names.push(format!("{}-1", b));
            names.push(format!("{}-8.0-rc1", b));
        }
        run.bound(format!("scale: {} patterns with 8..200 alternatives, 4..10 groups, nesting depth 4..32, 36 pairs of alternatives colliding under common 32-bit hashes x {} names plus own expansions", pats.len(), names.len()));
        for p in &pats {
            t.states += 1;
            check(&mut t, p, &names, true);
        }
        run.merge(t);
    }
    // very large expansions: one group of n numbered alternatives (n up to 2^20) and cross products
    // of two groups of k x k (k up to 1024).  The expansion is not materialised by the model: a
    // name matches exactly when it is one of the (distinct, plain) alternatives.
    {
        let ns: Vec<usize> = if run.thorough() { vec![1000, 4096, 30_000, 65_537, 300_000, 1 << 20] } else { vec![1000, 4096, 30_000, 65_537, 300_000] };
        let ks: Vec<usize> = if run.thorough() { vec![32, 100, 300, 600, 1024] } else { vec![32, 100, 300, 600] };
        run.bound(format!("very large expansions: single groups of {:?} alternatives, cross products of two groups of {:?} alternatives each; first / middle / last / absent members as names", ns, ks));
        let mut jobs: Vec<(&str, usize)> = ns.iter().map(|n| ("group", *n)).collect();
        jobs.extend(ks.iter().map(|k| ("cross", *k)));
        mc_core::par::par_items(&run, "C04 very large expansions", &jobs, |_, (kind, n), t| check_large(t, kind, *n, None));
    }
    // character sweep: every ASCII and 64 special non-ASCII characters as alternative text
    {
        let chars: Vec<char> = mc_core::chars::all().into_iter().filter(|c| !"{},".contains(*c)).collect();
        run.bound(format!("character sweep: {} characters in three brace patterns x 6 names", chars.len()));
        let mut t = Tally::new();
        for c in chars {
            let names: Vec<String> = vec![format!("{}", c), "b".into(), format!("a{}", c), "a".into(), format!("b{}", c), format!("a{}x", c)];
            for p in [format!("{{{},b}}", c), format!("a{{{}}}", c), format!("{{a,b}}{}", c)] {
                t.states += 1;
                check(&mut t, &p, &names, true);
            }
        }
        run.merge(t);
    }
    run.finish();
}
