//! C15 - PLIST queries agree with each other and with the entry sequence.

use mc_core::model::plist as mp;
use mc_core::seqs;
use mc_core::{bytes_from_json, bytes_json, guard, Run, Tally, Violation};
use mc_drivers::plist_entry_model;
use pkgsrc::plist::Plist;
use serde_json::{json, Value};
use std::os::unix::ffi::OsStrExt;

const S1: [&[u8]; 36] = [
    b"f1", b"f2", b"+M", b"@ignore", b"@cwd /a", b"@cwd /b/", b"@cwd \xe9", b"@cwd /c\xe9/", b"@cwd rel", b"@exec e %D", b"@unexec u", b"@mode",
    b"@mode 0644", b"@owner o", b"@group g", b"@pkgdir d1", b"@dirrm d2", b"@comment c", b"@name n-1", b"@display msg",
    b"@pkgdep p>=1", b"@blddep b-[0-9]*", b"@pkgcfl x-*", b"@option preserve", b"@name n-2", b"@display other",
    b"@owner", b"@group", b"@comment", b"/abs/f", b"@cwd /d//", b"@cwd //", b"@cwd /", b"@cwd .", b"@cwd ..", b"@cwd ./",
];
const S2: [&[u8]; 8] = [b"f1", b"f2", b"@ignore", b"@cwd /a", b"@cwd /b/", b"@exec e", b"@comment c", b"@cwd ."];

fn got_views(p: &Plist) -> mp::Views {
    let entries: Vec<mp::Entry> = p.verif_entries().iter().map(plist_entry_model).collect();
    let _ = entries;
    mp::Views {
        files: p.files().iter().map(|f| f.as_bytes().to_vec()).collect(),
        files_prefixed: p.files_prefixed().iter().map(|f| f.as_bytes().to_vec()).collect(),
        install: vec![],
        uninstall: vec![],
        depends: p.depends().iter().map(|s| s.to_string()).collect(),
        build_depends: p.build_depends().iter().map(|s| s.to_string()).collect(),
        conflicts: p.conflicts().iter().map(|s| s.to_string()).collect(),
        pkgdirs: p.pkgdirs().iter().map(|f| f.as_bytes().to_vec()).collect(),
        pkgrmdirs: p.pkgrmdirs().iter().map(|f| f.as_bytes().to_vec()).collect(),
        pkgname: p.pkgname().map(|s| s.to_string()),
        display: p.display().map(|f| f.as_bytes().to_vec()),
        is_preserve: p.is_preserve(),
    }
}

/// install / uninstall lists by value
fn cmd_lists(p: &Plist) -> (Vec<mp::Entry>, Vec<mp::Entry>) {
    (p.install_cmds().iter().map(|e| plist_entry_model(e)).collect(), p.uninstall_cmds().iter().map(|e| plist_entry_model(e)).collect())
}

fn diff(w: &mp::Views, g: &mp::Views) -> Option<(&'static str, String, String)> {
    macro_rules! cmp {
        ($f:ident, $n:expr) => {
            if w.$f != g.$f {
                return Some(($n, format!("{:?}", w.$f), format!("{:?}", g.$f)));
            }
        };
    }
    cmp!(files, "files()");
    cmp!(files_prefixed, "files_prefixed()");
    cmp!(depends, "depends()");
    cmp!(build_depends, "build_depends()");
    cmp!(conflicts, "conflicts()");
    cmp!(pkgdirs, "pkgdirs()");
    cmp!(pkgrmdirs, "pkgrmdirs()");
    cmp!(pkgname, "pkgname()");
    cmp!(display, "display()");
    cmp!(is_preserve, "is_preserve()");
    None
}

fn check_text(t: &mut Tally, text: &[u8]) {
    t.evals += 1;
    t.validated += 1;
    let case = || json!({"text": bytes_json(text)});
    let entries = match mp::parse(text) {
        Ok(e) => e,
        Err(()) => return, // alphabets only hold valid lines
    };
    let want = mp::views(&entries);
    let got = guard(|| Plist::from_bytes(text).map(|p| (got_views(&p), cmd_lists(&p))).map_err(|e| e.to_string()));
    match got {
        Ok(Ok((g, (inst, uninst)))) => {
            let want_inst: Vec<mp::Entry> = want.install.iter().map(|i| entries[*i].clone()).collect();
            let want_uninst: Vec<mp::Entry> = want.uninstall.iter().map(|i| entries[*i].clone()).collect();
            if inst != want_inst {
                t.violation(Violation::new("views", case(), json!({"view": "install_cmds()", "value": format!("{:?}", want_inst)}), json!(format!("{:?}", inst)), "a PLIST view differs from the fold over the entry sequence"));
                return;
            }
            if uninst != want_uninst {
                t.violation(Violation::new("views", case(), json!({"view": "uninstall_cmds()", "value": format!("{:?}", want_uninst)}), json!(format!("{:?}", uninst)), "a PLIST view differs from the fold over the entry sequence"));
                return;
            }
            let mut g = g;
            g.install = want.install.clone();
            g.uninstall = want.uninstall.clone();
            if let Some((view, w, o)) = diff(&want, &g) {
                t.violation(Violation::new("views", case(), json!({"view": view, "value": w}), json!(o), "a PLIST view differs from the fold over the entry sequence"));
                return;
            }
            // model-free cross-check: the four file views list the same files in the same order
            let inst_files: Vec<&mp::Entry> = inst.iter().filter(|e| matches!(e, mp::Entry::File(_))).collect();
            let unin_files: Vec<&mp::Entry> = uninst.iter().filter(|e| matches!(e, mp::Entry::File(_))).collect();
            if inst_files != unin_files || inst_files.len() != g.files.len() || g.files.len() != g.files_prefixed.len() {
                t.violation(Violation::new("views", case(), json!("the four file views agree"), json!(format!("{:?} {:?} {} {}", inst_files, unin_files, g.files.len(), g.files_prefixed.len())), "file views disagree with each other"));
                return;
            }
            let ignores = entries.iter().filter(|e| matches!(e, mp::Entry::Ignore)).count();
            let nfiles = entries.iter().filter(|e| matches!(e, mp::Entry::File(_))).count();
            if ignores > 0 && nfiles > 0 {
                t.nontrivial += 1;
            }
            t.outcome(if ignores == 0 {
                "views/no-ignore"
            } else if want.files.len() == nfiles {
                "views/ignore-without-effect"
            } else {
                "views/files-ignored"
            });
        }
        Ok(Err(e)) => t.violation(Violation::new("views", case(), json!("parses"), json!(e), "a list of valid lines was rejected")),
        Err(m) => t.violation(Violation::new("views", case(), json!("returns"), json!(format!("panic: {}", m)), "a PLIST view panicked")),
    }
}

fn replay(doc: &Value) -> Option<Violation> {
    let mut t = Tally::new();
    check_text(&mut t, &bytes_from_json(&doc["case"]["text"]));
    t.violations.into_iter().next()
}

fn main() {
    let run = Run::from_args("C15");
    if let Some(doc) = run.replay_case() {
        run.finish_replay(replay(doc), replay(doc));
    }
    run.rule(
        "packing lists generated from entry-kind alphabets and parsed by the real parser: S1 = 36 \
         kinds (files, @ignore, three @cwd shapes incl. trailing '/' and non-UTF-8, every other \
         command kind, two @name and two @display), all sequences of <= N1; S2 = 8 kinds (f1 f2 \
         @ignore @cwd /a @cwd /b/ @exec @comment '@cwd .'), all sequences of <= N2 (long ignore/file/cwd \
         interleavings). One reference fold over the known entry sequence yields all 12 views; \
         each real view must equal it, and the four file views must list the same files in the \
         same order (model-free). Non-trivial = lists containing both an @ignore and a file.",
    );
    run.assume("reference fold: mc/core/src/model/plist.rs views(); install/uninstall lists compared by value with the expected sub-sequence of the entry sequence");

    let n1 = run.pick(4, 5);
    run.bound(format!("S1: all {} sequences of <= {} entries over 36 kinds", seqs::count(S1.len(), n1), n1));
    seqs::par_seqs(&run, "C15 S1", S1.len(), n1, 2, |_| false, |s, t| {
        let mut text = vec![];
        for i in s {
            text.extend_from_slice(S1[*i]);
            text.push(b'\n');
        }
        check_text(t, &text);
        t.sample(run.seed, s.iter().fold(1u64, |a, x| a * 29 + *x as u64), || json!({"text": bytes_json(&text)}));
    });
    let n2 = run.pick(7, 9);
    run.bound(format!("S2: all {} sequences of <= {} entries over 8 kinds", seqs::count(S2.len(), n2), n2));
    seqs::par_seqs(&run, "C15 S2", S2.len(), n2, 3, |_| false, |s, t| {
        let mut text = vec![];
        for i in s {
            text.extend_from_slice(S2[*i]);
            text.push(b'\n');
        }
        check_text(t, &text);
    });
    // scale: long entry sequences (periodic walks through the S1 kinds)
    {
        let mut t = Tally::new();
        for n in [64usize, 65, 1000, 5000] {
            for (stride, offset) in [(1usize, 0usize), (3, 1), (5, 2), (7, 3), (11, 0), (4, 3)] {
                let mut text = vec![];
                for i in 0..n {
                    // every third entry is drawn from the small ignore/file/cwd alphabet to keep the flags busy
                    let line: &[u8] = if i % 3 == 0 { S2[(i / 3 * stride + offset) % S2.len()] } else { S1[(i * stride + offset) % S1.len()] };
                    text.extend_from_slice(line);
                    text.push(b'\n');
                }
                t.states += 1;
                t.transitions += n as u64;
                check_text(&mut t, &text);
            }
        }
        for p in 0..=300usize {
            for gap in [&b""[..], b"@comment between\n", b"@cwd /gap\n@mode 1\n"] {
                let mut text = vec![];
                for i in 0..p {
                    text.extend_from_slice(format!("f{}\n", i).as_bytes());
                }
                text.extend_from_slice(b"@ignore\n");
                text.extend_from_slice(gap);
                text.extend_from_slice(b"+IGNORED\nkept1\n@ignore\n@ignore\n+IGNORED2\nkept2\n");
                t.states += 1;
                t.transitions += p as u64 + 8;
                check_text(&mut t, &text);
            }
        }
        run.bound("scale: 24 entry sequences of 64..5000 entries (periodic walks through both alphabets); an @ignore/file pair (adjacent, and separated by other commands) after every number 0..300 of leading files");
        run.merge(t);
    }
    // byte sweep: every byte value at the end of a @cwd directory and inside file names
    {
        let mut t = Tally::new();
        for b in 0u16..=255 {
            let b = b as u8;
            if [b'\n', 0x09, 0x0b, 0x0c, 0x0d, 0x20, 0x85, 0xa0].contains(&b) {
                continue;
            }
            let text = [b"f0\n@cwd /d".as_slice(), &[b], b"\nf1\n@cwd /e", &[b], b"/\n@ignore\nf2\nf", &[b], b"\n@cwd ", &[b], b"\nf4\n"].concat();
            t.states += 1;
            check_text(&mut t, &text);
        }
        run.bound("byte sweep: every byte value at the end of a @cwd directory (with and without '/'), as a whole directory and inside a file name");
        run.merge(t);
    }
    run.finish();
}
