//! C02 - a dewey pattern matches exactly the same-base packages inside its
//! range; Dewey == Pattern for brace-free strings; malformed operator
//! sequences are rejected at compile time.

use mc_core::model::dewey::{self, LetterWeight, Op, OPS};
use mc_core::par::par_items;
use mc_core::seqs;
use mc_core::{guard, Run, Tally, Violation};
use pkgsrc::{Dewey, Pattern};
use serde_json::{json, Value};
use std::collections::BTreeSet;

fn case(pat: &str, name: Option<&str>) -> Value {
    match name {
        Some(n) => json!({"pattern": pat, "name": n}),
        None => json!({"pattern": pat}),
    }
}

/// Everything the property says about one brace-free pattern string, against
/// a list of names.
fn check_pattern(t: &mut Tally, pat: &str, names: &[String]) {
    let has_op = pat.contains('<') || pat.contains('>');
    let model = if has_op { dewey::parse_pattern(pat) } else { None };
    let compiled = guard(|| (Pattern::new(pat), Dewey::new(pat)));
    t.evals += 1;
    t.validated += 1;
    let (p, d) = match compiled {
        Ok(x) => x,
        Err(m) => {
            t.violation(Violation::new(
                "pat",
                case(pat, None),
                json!("compile returns"),
                json!(format!("panic: {}", m)),
                "compiling panicked",
            ));
            return;
        }
    };
    if !has_op {
        t.outcome("no-operator");
        if d.is_ok() {
            t.violation(Violation::new(
                "pat",
                case(pat, None),
                json!("Dewey::new rejects a string without operator"),
                json!("Ok"),
                "a comparison pattern with no operator must be rejected",
            ));
        }
        return;
    }
    let nops = pat.matches(|c| c == '<' || c == '>').count();
    // the statement names three causes of rejection; whether a pattern without a base compiles
    // is not among them, so both verdicts are accepted there (the two compilers must agree)
    if pat.starts_with(['<', '>']) && model.is_some() && !p.is_ok() && !d.is_ok() {
        t.outcome("empty-base/rejected (unconstrained)");
        return;
    }
    match (&model, p.is_ok(), d.is_ok()) {
        (Some(m), true, true) => {
            t.outcome(if m.bounds.len() == 1 { "accept/one-bound" } else { "accept/two-bounds" });
        }
        (None, false, false) => {
            t.outcome(if nops > 2 { "reject/too-many-operators" } else { "reject/operator-order" });
            t.nontrivial += 1;
            return;
        }
        (m, pk, dk) => {
            t.violation(Violation::new(
                "pat",
                case(pat, None),
                json!({"compiles": m.is_some()}),
                json!({"Pattern::new ok": pk, "Dewey::new ok": dk}),
                "compile verdict differs from the operator rule (one operator, or lower bound then upper bound)",
            ));
            return;
        }
    }
    let (p, d, m) = (p.unwrap(), d.unwrap(), model.unwrap());
    // the pattern's own text, and names built around it, are names too (a name equal to the
    // pattern has no claim to match)
    let own = [pat.to_string(), format!("{}-1", pat), format!("{}-{}", m.base, pat), format!("{}{}", pat, pat)];
    for name in names.iter().chain(own.iter()) {
        t.evals += 1;
        t.validated += 1;
        let got = guard(|| (p.matches(name), d.matches(name)));
        let (gp, gd) = match got {
            Ok(x) => x,
            Err(msg) => {
                t.violation(Violation::new(
                    "pat",
                    case(pat, Some(name)),
                    json!("a verdict"),
                    json!(format!("panic: {}", msg)),
                    "matching panicked",
                ));
                continue;
            }
        };
        if gp != gd {
            t.violation(Violation::new(
                "pat",
                case(pat, Some(name)),
                json!("Pattern::matches == Dewey::matches"),
                json!({"Pattern": gp, "Dewey": gd}),
                "the standalone Dewey matcher disagrees with Pattern",
            ));
            continue;
        }
        let want = m.matches(name, LetterWeight::Rank);
        let want_alt = m.matches(name, LetterWeight::AsciiLower);
        let same_base = dewey::split_name(name).map(|(b, _)| b == m.base).unwrap_or(false);
        if same_base {
            t.nontrivial += 1;
        }
        if want != want_alt {
            // verdict depends on how a single letter is weighted: that is C01's
            // business (known finding letter-weight-ascii), outside C02's domain
            t.outcome("skipped/letter-weight-dependent");
            continue;
        }
        t.outcome(match (same_base, want) {
            (true, true) => "match/same-base-in-range",
            (true, false) => "nomatch/same-base-out-of-range",
            (false, _) => "nomatch/other-base-or-no-dash",
        });
        if gp != want {
            t.violation(Violation::new(
                "pat",
                case(pat, Some(name)),
                json!(want),
                json!(gp),
                "match verdict differs from: base before the last '-' equal byte for byte and every bound satisfied",
            ));
        }
    }
}

const BASES: [&str; 8] = ["", "p", "pk", "p-q", "p-q-r", "é", "e\u{301}", "p*"];
const BOUNDS: [&str; 9] = ["", "1", "2", "1.5", "2nb1", "1.0", "2alpha", "0", "1\u{663}"];
const VERSIONS: [&str; 14] = ["", "0", "1", "1.5", "2", "2nb1", "3", "1.0.0", "2beta", "alpha", "0rc1", "0.0beta2", "1\u{663}", "1.0nb1\u{ff11}"];

fn structured_names() -> Vec<String> {
    let mut bases: BTreeSet<String> = BTreeSet::new();
    for b in BASES {
        bases.insert(b.to_string());
        bases.insert(format!("{}x", b));
        bases.insert(format!("x{}", b));
        bases.insert(format!("{}-q", b));
        bases.insert(format!("q-{}", b));
        bases.insert(b.to_uppercase());
        let cs: Vec<char> = b.chars().collect();
        if !cs.is_empty() {
            bases.insert(cs[..cs.len() - 1].iter().collect());
            bases.insert(cs[1..].iter().collect());
        }
    }
    let mut names: BTreeSet<String> = BTreeSet::new();
    for b in &bases {
        for v in VERSIONS {
            names.insert(format!("{}-{}", b, v));
        }
        if !b.contains('-') {
            names.insert(b.clone());
        }
    }
    for n in ["", "p", "p1", "p1.5", "pk2"] {
        names.insert(n.to_string());
    }
    names.into_iter().collect()
}

const CH: [char; 6] = ['p', '-', '1', '<', '>', '='];

fn char_names() -> Vec<String> {
    // every string <= 4 over "p - 1", plus names with '=' and longer shapes
    let mut v = vec![];
    let mut pre = vec![];
    let a = ['p', '-', '1'];
    let mut visit = |s: &[usize]| v.push(s.iter().map(|i| a[*i]).collect::<String>());
    seqs::dfs(3, 4, &mut pre, &|_| false, &mut visit);
    for n in [
        "p=-1", "p-=1", "=-1", "p-1=", "p-1-1", "pp-11", "p-p-1", "p-1-p", "p--1", "-p-1", "1-p-1",
        "p-1-11", "p-111", "p=", "=", "p=-", "p-p-p-1", "11-1",
        "p>1", "p>=1", "p<1", "p-1>", "p>-1", "p<1-1", "p>=1-1", ">-1", "p->1", "p-<1", "p>=1<11", "p>-", "<", ">=",
    ] {
        v.push(n.to_string());
    }
    v
}

/// A clone of pattern `a`, and an object compiled from `b` and then overwritten with
/// clone_from(a), match like `a` (Pattern and the standalone Dewey matcher).
fn check_copy(t: &mut Tally, a: &str, b: &str, cnames: &[String]) {
    t.states += 1;
    t.evals += 1;
    t.validated += 1;
    t.transitions += cnames.len() as u64;
    let r = guard(|| {
        let (pa, da) = (Pattern::new(a).ok()?, Dewey::new(a).ok()?);
        let (mut pb, mut db) = (Pattern::new(b).ok()?, Dewey::new(b).ok()?);
        pb.clone_from(&pa);
        db.clone_from(&da);
        let (pc, dc) = (pa.clone(), da.clone());
        for n in cnames {
            let want = pa.matches(n);
            let got = [pb.matches(n), pc.matches(n), db.matches(n), dc.matches(n), da.matches(n)];
            if got.iter().any(|g| *g != want) {
                return Some(Some((n.clone(), want, got)));
            }
        }
        Some(None)
    });
    match r {
        Ok(Some(None)) => {
            t.nontrivial += 1;
            t.outcome("copies/match-like-the-original");
        }
        Ok(None) => t.violation(Violation::new("copy", json!({"original": a, "overwritten": b}), json!("both compile"), json!("compile error"), "a valid one- or two-bound pattern must compile")),
        Ok(Some(Some((n, want, got)))) => t.violation(Violation::new("copy", json!({"original": a, "overwritten": b, "name": n}), json!(want), json!({"clone_from (Pattern), clone (Pattern), clone_from (Dewey), clone (Dewey), original Dewey": got}), "a copy of a pattern matches exactly what the pattern matches")),
        Err(m) => t.violation(Violation::new("copy", json!({"original": a, "overwritten": b}), json!("returns"), json!(format!("panic: {}", m)), "copying a pattern panicked")),
    }
}

fn replay(doc: &Value) -> Option<Violation> {
    let c = &doc["case"];
    if doc["kind"] == "copy" {
        let mut t = Tally::new();
        let names: Vec<String> = match c["name"].as_str() {
            Some(n) if !n.starts_with('(') => vec![n.to_string()],
            _ => vec!["p-1".to_string()],
        };
        check_copy(&mut t, c["original"].as_str().unwrap_or(""), c["overwritten"].as_str().unwrap_or(""), &names);
        return t.violations.into_iter().next();
    }
    let pat = c["pattern"].as_str().unwrap_or("");
    let names: Vec<String> = c["name"].as_str().map(|s| vec![s.to_string()]).unwrap_or_default();
    let mut t = Tally::new();
    check_pattern(&mut t, pat, &names);
    t.violations.into_iter().next()
}

fn main() {
    let run = Run::from_args("C02");
    if let Some(doc) = run.replay_case() {
        run.finish_replay(replay(doc), replay(doc));
    }
    run.rule(
        "(a) every pattern BASE x <=3 (operator, bound) pairs for 8 bases (empty, with several '-', \
         non-ASCII in two normal forms, containing '*') and 5 bounds, against a name pool holding \
         every base, its near-misses (prefix, suffix, one more/one fewer character, extra '-' part, \
         upper case) x 7 versions and names without '-'; (b) every string <= L over 'p - 1 < > =' \
         against every name <= 4 over 'p - 1' plus 18 longer shapes. For each: compile verdict of \
         Pattern::new and Dewey::new vs the operator rule, Pattern::matches == Dewey::matches, and \
         the verdict vs the model. Non-trivial = (pattern, name) with the name's base equal to the \
         pattern's base (the bounds decide), or a pattern rejected for its operators.",
    );
    run.assume("bounds/versions whose verdict depends on the weight of a single letter are skipped here (C01's domain)");
    run.assume("reference pattern scanner and dewey model: mc/core/src/model/dewey.rs");

    // (a)
    let names = structured_names();
    let mut pats: Vec<String> = vec![];
    {
        let k = OPS.len() * BOUNDS.len();
        let depth = run.pick(3, 3);
        for b in BASES {
            let mut pre = vec![];
            let mut visit = |s: &[usize]| {
                let mut p = b.to_string();
                for x in s {
                    let op: Op = OPS[x / BOUNDS.len()];
                    p.push_str(op.text());
                    p.push_str(BOUNDS[x % BOUNDS.len()]);
                }
                pats.push(p);
            };
            seqs::dfs(k, depth, &mut pre, &|_| false, &mut visit);
        }
        run.bound(format!(
            "(a) {} patterns (8 bases x all sequences of <= {} (op, bound) pairs) x {} names",
            pats.len(),
            depth,
            names.len()
        ));
    }
    par_items(&run, "C02(a)", &pats, |i, p, t| {
        t.states += 1;
        t.transitions += names.len() as u64;
        check_pattern(t, p, &names);
        t.sample(run.seed, i as u64, || json!({"pattern": p, "against": format!("{} names", names.len())}));
    });

    // (b)
    let l = run.pick(7, 11);
    let cnames = char_names();
    run.bound(format!(
        "(b) all {} strings of length <= {} over {:?} x {} names",
        seqs::count(CH.len(), l),
        l,
        CH,
        cnames.len()
    ));
    seqs::par_seqs(&run, "C02(b)", CH.len(), l, 3, |_| false, |s, t| {
        let p: String = s.iter().map(|i| CH[*i]).collect();
        t.transitions += cnames.len() as u64;
        check_pattern(t, &p, &cnames);
    });
    // scale: long bases, bounds with many components, names with many '-'
    {
        let mut t = Tally::new();
        let mut pats: Vec<String> = vec![];
        let mut names: Vec<String> = vec![];
        for n in [8usize, 16, 17, 64, 300] {
            let base = format!("{}x", "lib-".repeat(n));
            for (lo, hi) in [("1", "2"), ("1.0", "1.1"), ("1.0.0.0.0.0.0.0.0.1", "1.0.0.0.0.0.0.0.0.2"), ("0", "")] {
                pats.push(format!("{}>={}", base, lo));
                pats.push(format!("{}>={}<{}", base, lo, hi));
                pats.push(format!("{}<{}>{}", base, lo, hi));
            }
            for v in ["1", "1.0", "1.5", "1.0.0.0.0.0.0.0.0.1", "1.0.0.0.0.0.0.0.0.1.5", "2", "0", ""] {
                names.push(format!("{}-{}", base, v));
                names.push(format!("{}-{}", &base[1..], v));
                names.push(format!("{}y-{}", base, v));
            }
        }
        run.bound(format!("scale: {} patterns with bases of 8..300 '-' parts and bounds of up to 10 components x {} names", pats.len(), names.len()));
        for p in &pats {
            t.states += 1;
            t.transitions += names.len() as u64;
            check_pattern(&mut t, p, &names);
        }
        run.merge(t);
    }
    // operators inside bracket sets are operators all the same: every string <= L over
    // 'p [ ] < > 1 *' (a glob-looking pattern with '<' or '>' in it is a comparison pattern and
    // falls under the operator rule - never silently taken for a glob)
    {
        const BR: [char; 7] = ['p', '[', ']', '<', '>', '1', '*'];
        let lb = run.pick(6, 7);
        let bnames: Vec<String> = ["p-1", "p-2", "p[-1", "p[1]-1", "p-<", "p<-1", "p>1", "p", "p[<>]-1", "p-11", "p[-2", "p]-1"].iter().map(|s| s.to_string()).collect();
        run.bound(format!("(c) all {} strings of length <= {} over {:?} x {} names", seqs::count(BR.len(), lb), lb, BR, bnames.len()));
        seqs::par_seqs(&run, "C02(c)", BR.len(), lb, 3, |_| false, |q, t| {
            let p: String = q.iter().map(|i| BR[*i]).collect();
            if !(p.contains('<') || p.contains('>')) {
                return;
            }
            t.transitions += bnames.len() as u64;
            check_pattern(t, &p, &bnames);
        });
    }
    // typed-looking bounds: a bound is version text, whatever else it looks like (a dependency
    // with its path, a file name, a URL): every character that is not part of the comparison
    // rule is ignored, nothing is cut off
    {
        let vals: Vec<&str> = mc_core::chars::TYPED_VALUES.iter().copied().filter(|v| !v.contains(['<', '>', '{', '}'])).collect();
        let mut extra: Vec<String> = vec!["1.0:../../a/b".into(), "1:../../x".into(), "1.0.tgz".into(), "1.0.tar.gz".into(), "1.0:a".into(), "1.0 ".into(), "1.0#c".into(), "1.0,2".into(), "1.0;2".into(), "1.0/2".into(), "1.0@2".into()];
        extra.extend(vals.iter().map(|v| v.to_string()));
        let tnames: Vec<String> = ["p-1.0", "p-1.0nb1", "p-1", "p-2", "p-0", "p-1.0.1", "p-10", "p-1.0a", "p-3"].iter().map(|s| s.to_string()).collect();
        run.bound(format!("typed-looking bounds: {} bound texts in one- and two-bound patterns x {} names", extra.len(), tnames.len()));
        par_items(&run, "C02 typed bounds", &extra, |_, b, t| {
            for pat in [format!("p>{}", b), format!("p>={}", b), format!("p<{}", b), format!("p>=0<{}", b), format!("p>{}<9", b)] {
                t.states += 1;
                t.transitions += tnames.len() as u64;
                check_pattern(t, &pat, &tnames);
            }
        });
    }
    // (d) copies: a clone, and an object overwritten with clone_from, match like the pattern they
    // were copied from (every ordered pair of 16 patterns: the overwritten object was compiled
    // from the other one), for Pattern and for the standalone Dewey matcher
    {
        const PS: [&str; 16] = ["p>1", "p>=1", "p<1", "p<=1", "p>1<2", "p>=1<=2", "p>1<=2", "p>=1<2", "q>=2", "p>=2nb1", "p-q>0<9", "p<1.5", "p>=1.0alpha", "pp<=10", "p>0", "p<2nb1"];
        let mut t = Tally::new();
        let cnames: Vec<String> = ["p-0", "p-1", "p-1.0", "p-1.5", "p-2", "p-2nb1", "p-2nb2", "p-10", "q-2", "q-1", "p-q-5", "pp-3", "p", "p-1alpha"].iter().map(|s| s.to_string()).collect();
        for a in PS {
            for b in PS {
                check_copy(&mut t, a, b, &cnames);
            }
        }
        run.bound("(d) copies: clone and clone_from over every ordered pair of 16 patterns x 14 names, Pattern and Dewey");
        run.merge(t);
    }
    // range grid: every one- and two-bound pattern over a wider grid of bound shapes (equal values
    // in different spellings, modifiers, revisions, long and padded numbers) x every version of
    // the same grid as the candidate, same base and a near-miss base
    {
        const GRID: [&str; 24] = [
            "0", "1", "1.0", "1_0", "1.00", "01", "1nb1", "1.0nb1", "1nb2", "1.1", "1.9", "1.10", "2", "2rc1", "2beta3", "2alpha", "2pre2", "2pl1", "2.0.0.0.1", "10",
            "9.99", "20240102", "1.0.0", "2nb0",
        ];
        let mut pats: Vec<String> = vec![];
        for (oi, o1) in OPS.iter().enumerate() {
            for b1 in GRID {
                pats.push(format!("p{}{}", o1.text(), b1));
                for (o2i, o2) in OPS.iter().enumerate() {
                    for (bi, b2) in GRID.iter().enumerate() {
                        // quick tier: every second (first bound, second operator, second bound) combination
                        if !run.thorough() && (oi + o2i + bi) % 2 == 1 {
                            continue;
                        }
                        pats.push(format!("p{}{}{}{}", o1.text(), b1, o2.text(), b2));
                    }
                }
            }
        }
        let mut names: Vec<String> = GRID.iter().map(|v| format!("p-{}", v)).collect();
        names.extend(GRID.iter().take(8).map(|v| format!("pp-{}", v)));
        names.extend(GRID.iter().take(8).map(|v| format!("p-q-{}", v)));
        run.bound(format!("range grid: {} one- and two-bound patterns over {} bound shapes x {} names", pats.len(), GRID.len(), names.len()));
        par_items(&run, "C02 range grid", &pats, |_, p, t| {
            t.states += 1;
            t.transitions += names.len() as u64;
            check_pattern(t, p, &names);
        });
    }
    // spellings: the same component values written differently ('.', '_' and 'pl' all stand for
    // a 0 component, leading zeros, a trailing separator) in the two bounds of a range and in
    // the candidate - a range is about values, never about the text the bounds have in common;
    // and texts that a lenient number parser would read differently from the rule: a sign or
    // another character between 'nb' and its digits
    {
        let triples: [(u32, u32, u32); 7] = [(1, 2, 3), (1, 2, 5), (1, 2, 9), (1, 0, 0), (1, 0, 5), (1, 3, 0), (2, 0, 0)];
        let spell: [&dyn Fn(u32, u32, u32) -> String; 6] = [
            &|a, b, c| format!("{}.{}.{}", a, b, c),
            &|a, b, c| format!("{}.0{}.{}", a, b, c),
            &|a, b, c| format!("0{}.{}.00{}", a, b, c),
            &|a, b, c| format!("{}_{}_{}", a, b, c),
            &|a, b, c| format!("{}pl{}.{}.", a, b, c),
            &|a, b, c| format!("{}.{}.{}.0", a, b, c),
        ];
        let mut vers: Vec<String> = vec![];
        for (a, b, c) in triples {
            for sp in spell {
                vers.push(sp(a, b, c));
            }
        }
        vers.extend(["1...", "1..", "1.2.", "1.2..5", "1.02", "01.2"].iter().map(|x| x.to_string()));
        let mut pats: Vec<String> = vec![];
        for (i, lo) in vers.iter().enumerate() {
            for (j, hi) in vers.iter().enumerate() {
                // quick tier: every third (lower, upper) pair (the stride involves the triple's index, so that
                // every pair of spellings meets for some pair of triples)
                if !run.thorough() && (i + 2 * j + i / 6 + j / 6) % 3 != 0 {
                    continue;
                }
                for (o1, o2) in [(">=", "<"), (">", "<=")] {
                    pats.push(format!("p{}{}{}{}", o1, lo, o2, hi));
                }
            }
        }
        let mut names: Vec<String> = vers.iter().map(|v| format!("p-{}", v)).collect();
        // signs and other characters between 'nb' and its digits
        let mut signed: Vec<String> = vec![];
        for stem in ["1.0", "2.4", ""] {
            for tail in ["nb+5", "nb-5", "nb+0", "nb+", "nb5", "nb7", "nb05", "nb+05", "nb5+", "nb 5", "nb_5", "nb.5", "NB+5", "nb++5", "+5", "-5", ".+5", "nb+7", "nb"] {
                signed.push(format!("{}{}", stem, tail));
            }
        }
        for v in &signed {
            names.push(format!("p-{}", v));
            for o in OPS.iter() {
                pats.push(format!("p{}{}", o.text(), v));
            }
        }
        run.bound(format!("spellings: {} patterns (two-bound ranges over 7 value triples in 6 spellings; four operators x 57 texts with a sign or another character between 'nb' and its digits) x {} names", pats.len(), names.len()));
        par_items(&run, "C02 spellings", &pats, |_, p, t| {
            t.states += 1;
            t.transitions += names.len() as u64;
            check_pattern(t, p, &names);
        });
    }
    // modifier words overlapping their own beginnings: every text of one or two units from the
    // modifier words, their proper prefixes and the single letters they share ('prc', 'alpl',
    // 'alpre', 'betalpha', ...) behind a number, with and without a digit after it - a scanner that
    // gives up on 'pre' after 'pr' must still see the 'rc' that starts at the 'r'
    {
        const UNITS: [&str; 17] = ["a", "l", "p", "r", "c", "e", "al", "alp", "alph", "pr", "be", "bet", "rc", "pl", "pre", "alpha", "beta"];
        let mut tails: Vec<String> = UNITS.iter().map(|u| u.to_string()).collect();
        for a in UNITS {
            for b in UNITS {
                tails.push(format!("{}{}", a, b));
            }
        }
        tails.sort();
        tails.dedup();
        let mut vers: Vec<String> = vec![];
        for tl in &tails {
            vers.push(format!("1.0{}", tl));
            vers.push(format!("1.0{}1", tl));
        }
        vers.push("1.0".to_string());
        vers.push("1.0.1".to_string());
        let names: Vec<String> = vers.iter().map(|v| format!("p-{}", v)).collect();
        // bounds: every unit alone (with and without a digit) and the plain version, four operators
        let mut pats: Vec<String> = vec![];
        for u in UNITS.iter().map(|u| u.to_string()).chain(["".to_string(), "prc".to_string(), "alpl".to_string(), "alpre".to_string(), "bealpha".to_string()]) {
            for d in ["", "1"] {
                for o in OPS.iter() {
                    pats.push(format!("p{}1.0{}{}", o.text(), u, d));
                }
            }
        }
        run.bound(format!("modifier overlaps: {} bounds x {} versions built from one or two of 17 units (modifier words, their prefixes, shared letters)", pats.len(), names.len()));
        par_items(&run, "C02 modifier overlaps", &pats, |_, p, t| {
            t.states += 1;
            t.transitions += names.len() as u64;
            check_pattern(t, p, &names);
        });
    }
    // padded numbers: small values behind 0..300 zeros (a digit run is its numeric value however
    // many digits it is written with), as a component, as a later component and as the revision,
    // in bounds and in candidates
    {
        let mut vals: Vec<String> = vec![];
        for z in [0usize, 1, 17, 18, 19, 20, 21, 30, 64, 300] {
            for v in ["0", "1", "2", "10"] {
                vals.push(format!("{}{}", "0".repeat(z), v));
            }
        }
        let shapes: [&dyn Fn(&str) -> String; 3] = [&|x| x.to_string(), &|x| format!("1.{}", x), &|x| format!("1.0nb{}", x)];
        let mut pats: Vec<String> = vec![];
        let mut names: Vec<String> = vec![];
        for sh in shapes {
            for x in &vals {
                names.push(format!("p-{}", sh(x)));
                for o in OPS.iter() {
                    pats.push(format!("p{}{}", o.text(), sh(x)));
                }
            }
        }
        // two bounds of one shape around a padded candidate
        for sh in shapes {
            for (lo, hi) in [(&vals[1], &vals[38]), (&vals[21], &vals[2]), (&vals[36], &vals[39])] {
                for (o1, o2) in [(">=", "<="), (">", "<"), (">=", "<"), (">", "<=")] {
                    pats.push(format!("p{}{}{}{}", o1, sh(lo), o2, sh(hi)));
                }
            }
        }
        run.bound(format!("padded numbers: {} patterns (4 values behind 0..300 zeros as component, later component, revision; four operators; 36 two-bound) x {} names", pats.len(), names.len()));
        par_items(&run, "C02 padded numbers", &pats, |_, p, t| {
            t.states += 1;
            t.transitions += names.len() as u64;
            check_pattern(t, p, &names);
        });
    }
    // character sweep: every ASCII and 64 special non-ASCII characters inside the base
    {
        let chars: Vec<char> = mc_core::chars::all().into_iter().filter(|c| !"<>{}".contains(*c)).collect();
        run.bound(format!("character sweep: {} characters in three base positions x 2 patterns x 7 names", chars.len()));
        mc_core::par::par_items(&run, "C02 character sweep", &chars, |_, c, t| {
            for base in [format!("p{}", c), format!("{}p", c), format!("{}", c)] {
                let names: Vec<String> = vec![
                    format!("{}-1", base), format!("{}-2", base), format!("{}-3", base), "p-1".to_string(), format!("{}x-2", base), base.clone(), format!("x{}-2", base),
                ];
                for pat in [format!("{}>=1", base), format!("{}>1<=2", base)] {
                    t.states += 1;
                    t.transitions += names.len() as u64;
                    check_pattern(t, &pat, &names);
                }
            }
        });
    }
    run.finish();
}
