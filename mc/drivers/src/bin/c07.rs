//! C07 - pkg_summary entries round-trip, and the printed form depends only on
//! the current values (explicit-state search over real `Summary` objects).

use mc_core::model::summary::{self as ms, Entry, Kind, Val, VARS};
use mc_core::par::par_items;
use mc_core::{guard, Run, Tally, Violation};
use mc_drivers::{summary_push, summary_set, summary_state};
use pkgsrc::summary::Summary;
use serde_json::{json, Value};
use std::collections::HashSet;
use std::str::FromStr;

#[derive(Clone, Debug)]
enum Op {
    Set(usize, Val),
    Push(usize, String),
}

impl Op {
    fn json(&self) -> Value {
        match self {
            Op::Set(i, Val::S(s)) => json!({"op": "set", "var": VARS[*i].0, "s": s}),
            Op::Set(i, Val::I(n)) => json!({"op": "set", "var": VARS[*i].0, "i": n}),
            Op::Set(i, Val::A(a)) => json!({"op": "set", "var": VARS[*i].0, "a": a}),
            Op::Push(i, s) => json!({"op": "push", "var": VARS[*i].0, "s": s}),
        }
    }
    fn from_json(v: &Value) -> Option<Op> {
        let i = ms::var_index(v["var"].as_str()?)?;
        if v["op"] == "push" {
            return Some(Op::Push(i, v["s"].as_str()?.to_string()));
        }
        if let Some(s) = v["s"].as_str() {
            return Some(Op::Set(i, Val::S(s.to_string())));
        }
        if let Some(n) = v["i"].as_i64() {
            return Some(Op::Set(i, Val::I(n)));
        }
        let a = v["a"].as_array()?.iter().filter_map(|x| x.as_str().map(|s| s.to_string())).collect();
        Some(Op::Set(i, Val::A(a)))
    }
    fn apply_model(&self, e: &mut Entry) {
        match self {
            Op::Set(i, v) => {
                e.insert(*i, v.clone());
            }
            Op::Push(i, s) => match e.entry(*i).or_insert_with(|| Val::A(vec![])) {
                Val::A(a) => a.push(s.clone()),
                _ => unreachable!(),
            },
        }
    }
    fn apply_real(&self, s: &mut Summary) {
        match self {
            Op::Set(i, v) => summary_set(s, *i, v),
            Op::Push(i, x) => summary_push(s, *i, x),
        }
    }
}

const STR_VALUES: [&str; 9] = ["x", "", "a=b", "é€", " lead", "trail ", " ", "tab\t", "nbsp\u{a0}"];

fn ops(full: bool) -> Vec<Op> {
    let mut v = vec![];
    let mut k = 0;
    for (i, (_, kind, _)) in VARS.iter().enumerate() {
        match kind {
            Kind::S => {
                v.push(Op::Set(i, Val::S("x".into())));
                k += 1;
                let alt = STR_VALUES[1 + k % 8];
                if full || VARS[i].2 {
                    v.push(Op::Set(i, Val::S(alt.into())));
                }
                if full && alt != "" {
                    v.push(Op::Set(i, Val::S(String::new())));
                }
            }
            Kind::I => {
                let (a, b) = if i == 8 { (0, i64::MIN) } else { (-1, i64::MAX) };
                v.push(Op::Set(i, Val::I(a)));
                if full || VARS[i].2 {
                    v.push(Op::Set(i, Val::I(b)));
                }
            }
            Kind::A => {
                v.push(Op::Set(i, Val::A(vec!["l1".into()])));
                v.push(Op::Push(i, "p1".into()));
                if full {
                    // adjacent duplicates, empty and blank-only lines, trailing blanks
                    v.push(Op::Set(i, Val::A(vec!["l1".into(), "".into(), "".into(), "é=2 ".into()])));
                    v.push(Op::Push(i, if i % 2 == 0 { "" } else { " " }.into()));
                }
            }
        }
    }
    v
}

fn seed_ops(name: &str) -> Vec<Op> {
    let mut v = vec![];
    for (i, (n, kind, req)) in VARS.iter().enumerate() {
        let take = match name {
            "empty" => false,
            "minimal" => *req,
            // the minimal entry without one required variable
            x if x.starts_with("minus-") => *req && &x[6..] != *n,
            _ => true,
        };
        if !take {
            continue;
        }
        v.push(match kind {
            Kind::S => Op::Set(i, Val::S(format!("seed {}", n.to_lowercase()))),
            Kind::I => Op::Set(i, Val::I(1000 + i as i64)),
            Kind::A => Op::Set(i, Val::A(vec![format!("{} one", n), format!("{} two", n)])),
        });
    }
    v
}

/// Every invariant of the property on one reached object.
fn check_state(t: &mut Tally, s: &Summary, model: &Entry, history: &dyn Fn() -> Value) -> bool {
    t.evals += 1;
    t.validated += 1;
    let r = guard(|| {
        let st = summary_state(s);
        // the remaining accessors must return too (C17's Summary clause)
        let _ = (s.pkgbase(), s.pkgversion(), s.description_as_str());
        (st, s.to_string(), s.is_completed())
    });
    let (st, text, completed) = match r {
        Ok(x) => x,
        Err(m) => {
            t.violation(Violation::new("history", history(), json!("accessors return"), json!(format!("panic: {}", m)), "a Summary accessor panicked"));
            return false;
        }
    };
    if &st != model {
        t.violation(Violation::new("history", history(), json!(format!("{:?}", model)), json!(format!("{:?}", st)), "getters differ from the values set"));
        return false;
    }
    let want_text = ms::print(model);
    if text != want_text {
        t.violation(Violation::new("history", history(), json!(want_text), json!(text), "printed form is not one VAR=value line per value in the fixed order"));
        return false;
    }
    let complete = ms::is_complete(model);
    if completed != complete {
        t.violation(Violation::new("history", history(), json!(complete), json!(completed), "is_completed() differs from 'the eleven required variables are set'"));
        return false;
    }
    if !complete {
        t.outcome("state/incomplete");
        return true;
    }
    // round trip
    t.nontrivial += 1;
    let rt = guard(|| Summary::from_str(&text).map(|p| (summary_state(&p), p.to_string())));
    match rt {
        Ok(Ok((st2, text2))) => {
            if &st2 != model {
                t.violation(Violation::new("history", history(), json!(format!("{:?}", model)), json!(format!("{:?}", st2)), "parse(print(entry)) has different values"));
                return false;
            }
            if text2 != text {
                t.violation(Violation::new("history", history(), json!(text), json!(text2), "print(parse(text)) != text for a canonical text"));
                return false;
            }
            t.outcome("state/complete-roundtrip");
            true
        }
        Ok(Err(e)) => {
            t.violation(Violation::new("history", history(), json!("parses"), json!(format!("{:?}", e)), "printed complete entry does not parse"));
            false
        }
        Err(m) => {
            t.violation(Violation::new("history", history(), json!("parses"), json!(format!("panic: {}", m)), "parser panicked"));
            false
        }
    }
}

fn build(seed: &str, hist: &[Op], t: &mut Tally) -> Option<(Summary, Entry)> {
    let mut s = Summary::new();
    let mut m = Entry::new();
    let mut done: Vec<Op> = vec![];
    for op in seed_ops(seed).iter().chain(hist.iter()) {
        if let Err(msg) = guard(|| op.apply_real(&mut s)) {
            done.push(op.clone());
            t.violation(Violation::new("history", hist_json(seed, &done[seed_ops(seed).len().min(done.len())..]), json!("returns"), json!(format!("panic: {}", msg)), "setter panicked"));
            return None;
        }
        op.apply_model(&mut m);
        done.push(op.clone());
    }
    Some((s, m))
}

fn hist_json(seed: &str, hist: &[Op]) -> Value {
    json!({"seed": seed, "ops": hist.iter().map(|o| o.json()).collect::<Vec<_>>()})
}

/// One operation on an entry of which copies exist: the clone taken before, an entry overwritten
/// with clone_from afterwards, the same calls on Summary::default(), the call on a second clone.
fn check_copies(t: &mut Tally, seed: &str, op: &Op, other_op: &Op) {
    t.states += 1;
    t.transitions += 4;
    let Some((mut real, mut model)) = build(seed, &[], t) else { return };
    let hj = |what: &str| json!({"seed": seed, "ops": [op.json()], "copy": what, "other": other_op.json()});
    let r = guard(|| {
        let keep = real.clone();
        op.apply_real(&mut real);
        let mut other = Summary::new();
        other_op.apply_real(&mut other);
        other.clone_from(&real);
        let mut dflt = Summary::default();
        for o in seed_ops(seed) {
            o.apply_real(&mut dflt);
        }
        op.apply_real(&mut dflt);
        let mut late = keep.clone();
        op.apply_real(&mut late);
        (keep, other, dflt, late)
    });
    let before = model.clone();
    op.apply_model(&mut model);
    match r {
        Ok((keep, other, dflt, late)) => {
            let _ = check_state(t, &real, &model, &|| hj("the object the call was made on, a clone being alive"))
                && check_state(t, &keep, &before, &|| hj("the clone taken before the call"))
                && check_state(t, &other, &model, &|| hj("another entry overwritten with clone_from"))
                && check_state(t, &dflt, &model, &|| hj("the same calls on Summary::default()"))
                && check_state(t, &late, &model, &|| hj("the call made on a clone of the clone"));
        }
        Err(m) => t.violation(Violation::new("history", hj("clone / clone_from / default"), json!("returns"), json!(format!("panic: {}", m)), "copying an entry panicked")),
    }
}

fn replay(doc: &Value) -> Option<Violation> {
    let c = &doc["case"];
    if c["copy"].is_string() {
        let mut t = Tally::new();
        let ops: Vec<Op> = c["ops"].as_array().map(|a| a.iter().filter_map(Op::from_json).collect()).unwrap_or_default();
        if let (Some(op), Some(other)) = (ops.first(), Op::from_json(&c["other"])) {
            check_copies(&mut t, c["seed"].as_str().unwrap_or("empty"), op, &other);
        }
        return t.violations.into_iter().next();
    }
    let seed = c["seed"].as_str().unwrap_or("empty").to_string();
    let hist: Vec<Op> = c["ops"].as_array().map(|a| a.iter().filter_map(Op::from_json).collect()).unwrap_or_default();
    let mut t = Tally::new();
    for n in 0..=hist.len() {
        if let Some((s, m)) = build(&seed, &hist[..n], &mut t) {
            let h = hist[..n].to_vec();
            let sd = seed.clone();
            check_state(&mut t, &s, &m, &move || hist_json(&sd, &h));
        }
        if !t.violations.is_empty() {
            break;
        }
    }
    t.violations.into_iter().next()
}

struct Node {
    real: Summary,
    model: Entry,
    hist: Vec<usize>,
}

fn main() {
    let run = Run::from_args("C07");
    if let Some(doc) = run.replay_case() {
        run.finish_replay(replay(doc), replay(doc));
    }
    run.rule(
        "explicit-state breadth-first search: a state is a real Summary object, a transition one \
         real set_*/push_* call on a clone; seeds = empty, minimal complete (11 required), full \
         (23). On EVERY transition (not only on new states) the reached object is checked against \
         a model map updated by the same operation: 23 getters, to_string() == model printer, \
         is_completed(), and for complete states parse(print) values and print(parse(print)) \
         byte-equality. States are merged by the 23 getter values (the object's complete state). \
         Non-trivial = transitions reaching a complete state (round trip exercised).",
    );
    run.assume("Summary's only field is the variable map and every variable has a getter, so the 23 getters are the complete object state (tripwire on size_of below)");
    run.assume("values contain no CR/LF and lists are non-empty (statement domain)");
    if std::mem::size_of::<Summary>() != std::mem::size_of::<std::collections::HashMap<u8, u8>>() {
        run.cap_hit("Summary gained a field: the 23-getter state key may be incomplete, states are still explored but the run is not called exhaustive");
    }

    let depth = run.pick(3, 4);
    for seed in ["empty", "minimal", "full"] {
        // depth d with the full menu, then depth d+1 with the reduced menu
        let plans: Vec<(usize, Vec<Op>)> = if run.thorough() {
            vec![(depth, ops(true)), (depth + 1, ops(false))]
        } else {
            vec![(depth, ops(true)), (depth + 1, ops(false))]
        };
        for (d, menu) in plans {
            run.bound(format!("seed {}: all histories of <= {} calls over a menu of {} operations", seed, d, menu.len()));
            let mut t0 = Tally::new();
            let Some((s0, m0)) = build(seed, &[], &mut t0) else {
                run.merge(t0);
                continue;
            };
            check_state(&mut t0, &s0, &m0, &|| hist_json(seed, &[]));
            t0.states += 1;
            run.merge(t0);
            let mut seen: HashSet<Entry> = HashSet::new();
            seen.insert(m0.clone());
            let mut frontier = vec![Node { real: s0, model: m0, hist: vec![] }];
            for level in 1..=d {
                let last = level == d;
                let results: std::sync::Mutex<Vec<Node>> = std::sync::Mutex::new(vec![]);
                let last_states: std::sync::Mutex<HashSet<u64>> = std::sync::Mutex::new(HashSet::new());
                par_items(&run, "C07 frontier", &frontier, |ni, node, t| {
                    let mut local = vec![];
                    let mut local_last = vec![];
                    for (oi, op) in menu.iter().enumerate() {
                        t.transitions += 1;
                        let mut real = node.real.clone();
                        let mut model = node.model.clone();
                        let mut hist = node.hist.clone();
                        hist.push(oi);
                        let hj = || hist_json(seed, &hist.iter().map(|i| menu[*i].clone()).collect::<Vec<_>>());
                        if let Err(m) = guard(|| op.apply_real(&mut real)) {
                            t.violation(Violation::new("history", hj(), json!("returns"), json!(format!("panic: {}", m)), "setter panicked"));
                            continue;
                        }
                        op.apply_model(&mut model);
                        let ok = check_state(t, &real, &model, &hj);
                        t.sample(run.seed, (ni * 64 + oi) as u64, &hj);
                        if ok && !last {
                            local.push(Node { real, model, hist });
                        } else if ok {
                            use std::hash::{Hash, Hasher};
                            let mut h = std::collections::hash_map::DefaultHasher::new();
                            model.hash(&mut h);
                            local_last.push(h.finish());
                        }
                    }
                    results.lock().unwrap().extend(local);
                    last_states.lock().unwrap().extend(local_last);
                });
                if last {
                    // distinct states of the deepest level that were not seen before
                    let mut t = Tally::new();
                    t.states += last_states.into_inner().unwrap().len() as u64;
                    run.merge(t);
                    break;
                }
                let mut next = vec![];
                let mut all = results.into_inner().unwrap();
                // deterministic order: by history
                all.sort_by(|a, b| a.hist.cmp(&b.hist));
                for n in all {
                    if seen.insert(n.model.clone()) {
                        next.push(n);
                    }
                }
                let mut t = Tally::new();
                t.states += next.len() as u64;
                run.merge(t);
                frontier = next;
            }
        }
    }
    // scale: long histories and long values (capacity growth, thresholds on list
    // length or value size cannot show within 3-5 operations)
    run.bound("scale: one 3 x menu-length history per seed (every operation of the full menu in three different orders), lists grown by 64 pushes per list variable, 16 KiB values; every intermediate state checked");
    let menu = ops(true);
    let mut t = Tally::new();
    for seed in ["empty", "minimal", "full"] {
        let mut hist: Vec<Op> = vec![];
        // the menu forwards, backwards, and with stride 7
        let order: Vec<usize> = (0..menu.len())
            .chain((0..menu.len()).rev())
            .chain((0..menu.len()).map(|i| (i * 7) % menu.len()))
            .collect();
        if let Some((mut real, mut model)) = build(seed, &[], &mut t) {
            for i in order {
                let op = menu[i].clone();
                hist.push(op.clone());
                if guard(|| op.apply_real(&mut real)).is_err() {
                    t.violation(Violation::new("history", hist_json(seed, &hist), json!("returns"), json!("panic"), "setter panicked in a long history"));
                    break;
                }
                op.apply_model(&mut model);
                t.states += 1;
                t.transitions += 1;
                let h = hist.clone();
                if !check_state(&mut t, &real, &model, &move || hist_json(seed, &h)) {
                    break;
                }
            }
        }
    }
    for (i, (_, kind, _)) in VARS.iter().enumerate() {
        let mut hist: Vec<Op> = vec![];
        let Some((mut real, mut model)) = build("minimal", &[], &mut t) else { continue };
        let steps: Vec<Op> = match kind {
            Kind::A => (0..64).map(|k| Op::Push(i, format!("item {}", k % 5))).chain(std::iter::once(Op::Set(i, Val::A((0..40).map(|k| format!("v{}", k)).collect())))).collect(),
            Kind::S => vec![Op::Set(i, Val::S("y".repeat(16 * 1024))), Op::Set(i, Val::S("é".repeat(5000))), Op::Set(i, Val::S("z".into()))],
            Kind::I => vec![Op::Set(i, Val::I(2147483648)), Op::Set(i, Val::I(-2147483649)), Op::Set(i, Val::I(4294967296)), Op::Set(i, Val::I(9007199254740993))],
        };
        for op in steps {
            hist.push(op.clone());
            if guard(|| op.apply_real(&mut real)).is_err() {
                t.violation(Violation::new("history", hist_json("minimal", &hist), json!("returns"), json!("panic"), "setter panicked"));
                break;
            }
            op.apply_model(&mut model);
            t.states += 1;
            t.transitions += 1;
            let h = hist.clone();
            if !check_state(&mut t, &real, &model, &move || hist_json("minimal", &h)) {
                break;
            }
        }
    }
    run.merge(t);
    // character sweep: every ASCII and 64 special non-ASCII characters inside values
    {
        let mut t = Tally::new();
        let chars = mc_core::chars::all();
        run.bound(format!("character sweep: {} characters in 5 value positions on the minimal complete entry", chars.len()));
        for c in chars {
            let opsv = vec![
                Op::Set(2, Val::S(format!("a{}", c))),
                Op::Set(15, Val::S(format!("{}-1", c))),
                Op::Push(5, format!("{}", c)),
                Op::Set(9, Val::S(format!("{}", c))),
                Op::Set(4, Val::A(vec![format!("x{}y", c), format!("{}", c)])),
            ];
            if let Some((mut real, mut model)) = build("minimal", &[], &mut t) {
                let mut hist = vec![];
                for op in opsv {
                    hist.push(op.clone());
                    if guard(|| op.apply_real(&mut real)).is_err() {
                        t.violation(Violation::new("history", hist_json("minimal", &hist), json!("returns"), json!("panic"), "setter panicked"));
                        break;
                    }
                    op.apply_model(&mut model);
                    t.states += 1;
                    t.transitions += 1;
                    let h = hist.clone();
                    if !check_state(&mut t, &real, &model, &move || hist_json("minimal", &h)) {
                        break;
                    }
                }
            }
        }
        run.merge(t);
    }
    // copies: a clone taken before a call is not affected by it (and keeps the call's object
    // unaffected while it is alive), an object overwritten with clone_from behaves like its
    // source, and an entry started from Default::default() behaves like one from new()
    {
        let menu = ops(true);
        run.bound(format!("copies: 3 seeds x {} operations: clone before the call (both objects checked, then the clone called too), clone_from into an object with other contents, Default::default() as the starting point", menu.len()));
        let mut t = Tally::new();
        for seed in ["empty", "minimal", "full"] {
            for (oi, op) in menu.iter().enumerate() {
                check_copies(&mut t, seed, op, &menu[(oi + 7) % menu.len()]);
            }
        }
        run.merge(t);
    }
    // almost complete entries: the minimal entry without one required variable (eleven seeds), every
    // history of <= 2 calls over the full menu - completeness must follow the variables that are
    // set, however many values were pushed
    {
        let menu = ops(true);
        let seeds: Vec<String> = VARS.iter().filter(|(_, _, req)| *req).map(|(n, _, _)| format!("minus-{}", n)).collect();
        run.bound(format!("almost complete entries: {} seeds (minimal entry without one required variable) x all histories of <= 2 calls over {} operations", seeds.len(), menu.len()));
        par_items(&run, "C07 almost complete", &seeds, |_, seed, t| {
            for a in 0..menu.len() {
                for b in std::iter::once(None).chain((0..menu.len()).map(Some)) {
                    let hist: Vec<Op> = std::iter::once(menu[a].clone()).chain(b.map(|i| menu[i].clone())).collect();
                    t.transitions += hist.len() as u64;
                    t.states += 1;
                    if let Some((real, model)) = build(seed, &hist, t) {
                        let h = hist.clone();
                        let sd = seed.clone();
                        check_state(t, &real, &model, &move || hist_json(&sd, &h));
                    }
                }
            }
        });
    }
    // typed-looking values: every value another parser of the library would canonicalise, in
    // every string and list variable (values are stored and printed verbatim)
    {
        let mut t = Tally::new();
        let vals = mc_core::chars::TYPED_VALUES;
        run.bound(format!("typed-looking values: {} values (package paths, digest names, package names / patterns, numbers, booleans, other formats' syntax) x every string and list variable on the minimal and the full entry", vals.len()));
        for seed in ["minimal", "full"] {
            for (i, (_, kind, _)) in VARS.iter().enumerate() {
                for (vi, v) in vals.iter().enumerate() {
                    let other = vals[(vi + 7) % vals.len()];
                    let opsv: Vec<Op> = match kind {
                        Kind::S => vec![Op::Set(i, Val::S(v.to_string()))],
                        Kind::A => vec![Op::Set(i, Val::A(vec![v.to_string(), other.to_string()])), Op::Push(i, v.to_string())],
                        Kind::I => continue,
                    };
                    if let Some((mut real, mut model)) = build(seed, &[], &mut t) {
                        let mut hist = vec![];
                        for op in opsv {
                            hist.push(op.clone());
                            if guard(|| op.apply_real(&mut real)).is_err() {
                                t.violation(Violation::new("history", hist_json(seed, &hist), json!("returns"), json!("panic"), "setter panicked"));
                                break;
                            }
                            op.apply_model(&mut model);
                            t.states += 1;
                            t.transitions += 1;
                            let h = hist.clone();
                            if !check_state(&mut t, &real, &model, &move || hist_json(seed, &h)) {
                                break;
                            }
                        }
                    }
                }
            }
        }
        run.merge(t);
    }
    run.finish();
}
