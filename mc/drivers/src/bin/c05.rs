//! C05 - glob and plain patterns: whole-name match, right dispatch, inert
//! first-two-characters fast-reject.

use mc_core::model::glob;
use mc_core::seqs;
use mc_core::{guard, Run, Tally, Violation};
use pkgsrc::{Pattern, PatternError};
use serde_json::{json, Value};

const TOK: [&str; 14] = [
    "a", "b", "A", "-", "1", "*", "?", "[ab]", "[!a]", "[a-c]", "[0-9]", "é", "]", ".",
];
const NAME_CH: [&str; 10] = ["a", "b", "c", "A", "-", "1", "é", "]", ".", "/"];

fn all_names(max: usize) -> Vec<String> {
    let mut v = vec![];
    let mut pre = vec![];
    let mut visit = |s: &[usize]| v.push(s.iter().map(|i| NAME_CH[*i]).collect::<String>());
    seqs::dfs(NAME_CH.len(), max, &mut pre, &|_| false, &mut visit);
    v
}

fn case(p: &str, n: Option<&str>) -> Value {
    match n {
        Some(n) => json!({"pattern": p, "name": n}),
        None => json!({"pattern": p}),
    }
}

fn is_meta(p: &str) -> bool {
    p.contains('*') || p.contains('?') || p.contains('[') || p.contains(']')
}

/// One well-formed pattern of the subset against a list of names.
fn check(t: &mut Tally, p: &str, names: &[String]) {
    let meta = is_meta(p);
    let toks = if meta { glob::parse(p) } else { None };
    if meta && toks.is_none() {
        // callers only pass well-formed patterns here
        return;
    }
    t.evals += 1;
    t.validated += 1;
    let pat = match guard(|| Pattern::new(p)) {
        Ok(Ok(x)) => x,
        Ok(Err(e)) => {
            t.violation(Violation::new("glob", case(p, None), json!("compiles"), json!(format!("error: {}", e)), "a well-formed glob / plain pattern must compile"));
            return;
        }
        Err(m) => {
            t.violation(Violation::new("glob", case(p, None), json!("compiles"), json!(format!("panic: {}", m)), "compiling panicked"));
            return;
        }
    };
    let pc: Vec<char> = p.chars().collect();
    // every pool name, plus the pattern's own text used as a name (a bracket set
    // does not match its own spelling)
    let own = [p.to_string()];
    for n in names.iter().chain(own.iter()) {
        t.evals += 1;
        t.validated += 1;
        let want = match &toks {
            Some(tk) => glob::matches(tk, n),
            None => p == n,
        };
        // non-trivial: the name agrees with the pattern on everything the
        // fast-reject inspects or differs only there
        let nc: Vec<char> = n.chars().collect();
        let near = nc.len() < 2
            || (pc.len() >= 2 && nc.len() == pc.len() && nc[2..] == pc[2..] && nc[..2] != pc[..2]);
        if near || want {
            t.nontrivial += 1;
        }
        match guard(|| pat.matches(n)) {
            Ok(got) if got == want => t.outcome(match (meta, want) {
                (true, true) => "glob/match",
                (true, false) => "glob/nomatch",
                (false, true) => "plain/match",
                (false, false) => "plain/nomatch",
            }),
            Ok(got) => t.violation(Violation::new(
                "glob",
                case(p, Some(n)),
                json!(want),
                json!(got),
                if meta { "verdict differs from the case-sensitive whole-name shell glob" } else { "a plain pattern must match only the identical string" },
            )),
            Err(m) => t.violation(Violation::new("glob", case(p, Some(n)), json!(want), json!(format!("panic: {}", m)), "matching panicked")),
        }
    }
}

fn check_malformed(t: &mut Tally, p: &str) {
    t.evals += 1;
    t.validated += 1;
    match guard(|| Pattern::new(p)) {
        Ok(Err(PatternError::Glob(_))) => t.outcome("malformed/rejected"),
        // which variant carries the report is not part of the statement
        Ok(Err(_)) => t.outcome("malformed/rejected-other-variant"),
        Ok(Ok(_)) => t.violation(Violation::new("malformed", case(p, None), json!("Err"), json!("Ok"), "a glob with an unclosed '[' must be reported when compiled")),
        Err(m) => t.violation(Violation::new("malformed", case(p, None), json!("Err"), json!(format!("panic: {}", m)), "compiling panicked")),
    }
}

/// The fast-reject must be inert for *every* kind of pattern: comparison and
/// brace patterns against the composed reference model.
fn check_other_kind(t: &mut Tally, p: &str, names: &[String]) {
    use mc_core::model::dewey::LetterWeight;
    use mc_core::model::pattern as mpat;
    if mpat::matches(p, "", LetterWeight::Rank).is_none() {
        return; // does not compile in the model: compile verdicts are C02/C04's business
    }
    // '**' is outside the modelled glob subset, also when it only arises after brace expansion
    match mc_core::model::brace::expand(p, 4096) {
        Some(ex) if ex.iter().any(|e| e.contains("**") || e.starts_with(['<', '>'])) => return,
        None => return,
        _ => {}
    }
    let pat = match guard(|| Pattern::new(p)) {
        Ok(Ok(x)) => x,
        _ => return,
    };
    let pc: Vec<char> = p.chars().collect();
    // the pattern's own text is a name too: it is not one of its expansions, and has no '-'
    let own = [p.to_string(), format!("{}-1", p)];
    for n in names.iter().chain(own.iter()) {
        let want = mpat::matches(p, n, LetterWeight::Rank);
        if want != mpat::matches(p, n, LetterWeight::AsciiLower) {
            continue; // depends on a letter's weight (C01's known finding)
        }
        let Some(want) = want else { continue };
        t.evals += 1;
        t.validated += 1;
        let nc: Vec<char> = n.chars().collect();
        if want || nc.len() < 2 || (pc.len() >= 2 && nc.len() >= 2 && nc[..2] != pc[..2]) {
            t.nontrivial += 1;
        }
        match guard(|| pat.matches(n)) {
            Ok(got) if got == want => t.outcome(if want { "other-kind/match" } else { "other-kind/nomatch" }),
            Ok(got) => t.violation(Violation::new(
                "other",
                case(p, Some(n)),
                json!(want),
                json!(got),
                "verdict of a comparison / brace pattern differs from the model (the first-two-characters fast-reject must never change an answer)",
            )),
            Err(m) => t.violation(Violation::new("other", case(p, Some(n)), json!(want), json!(format!("panic: {}", m)), "matching panicked")),
        }
    }
}

const OTHER_TOK: [&str; 11] = ["p", "q", "-", ">=", "<", "1", "{", "}", ",", "é", "*"];
const OTHER_NAME_CH: [&str; 6] = ["p", "q", "-", "1", "é", "2"];

fn replay(doc: &Value) -> Option<Violation> {
    let c = &doc["case"];
    let p = c["pattern"].as_str().unwrap_or("");
    let mut t = Tally::new();
    match doc["kind"].as_str() {
        Some("malformed") => check_malformed(&mut t, p),
        Some("other") => {
            let names: Vec<String> = c["name"].as_str().map(|s| vec![s.to_string()]).unwrap_or_default();
            check_other_kind(&mut t, p, &names);
        }
        _ => {
            let names: Vec<String> = c["name"].as_str().map(|s| vec![s.to_string()]).unwrap_or_default();
            check(&mut t, p, &names);
        }
    }
    t.violations.into_iter().next()
}

fn main() {
    let run = Run::from_args("C05");
    if let Some(doc) = run.replay_case() {
        run.finish_replay(replay(doc), replay(doc));
    }
    run.rule(
        "every pattern of <= N tokens over 'a b A - 1 * ? [ab] [!a] [a-c] [0-9] e-acute ]' (glob \
         when it contains a metacharacter, plain otherwise) against EVERY name of <= 4 characters \
         over 'a b c A - 1 e-acute ]' (so names of length 0, 1, 2 and names differing only in the \
         first or second character are always present); oracle = DP shell-glob matcher / string \
         equality. Every pattern with an unclosed '[' inserted at every position must be an error. \
         Comparison and brace patterns (token strings over 'p q - >= < 1 { } , e-acute *') against \
         every name <= 4 over 'p q - 1 e-acute 2' vs the composed reference model, so that the \
         fast-reject is shown inert for every kind of pattern. \
         Non-trivial = the pair matches, or the name is shorter than two characters, or it differs \
         from the pattern only within the first two characters (where the fast-reject looks).",
    );
    run.assume("glob subset: no '**', at most 3 '*', no '^', no reversed ranges, no ']' '-' '!' as set members (statement domain)");
    run.assume("reference glob matcher: mc/core/src/model/glob.rs");

    // comparison and brace patterns: the shortcut must be inert for them too
    let other_names: Vec<String> = {
        let mut v = vec![];
        let mut pre = vec![];
        let mut visit = |s: &[usize]| v.push(s.iter().map(|i| OTHER_NAME_CH[*i]).collect::<String>());
        seqs::dfs(OTHER_NAME_CH.len(), 4, &mut pre, &|_| false, &mut visit);
        v
    };
    let k = run.pick(4, 5);
    run.bound(format!(
        "other kinds: all {} token strings of <= {} tokens over {:?} that contain a comparison operator or a brace x all {} names of <= 4 characters over {:?}",
        seqs::count(OTHER_TOK.len(), k), k, OTHER_TOK, other_names.len(), OTHER_NAME_CH
    ));
    seqs::par_seqs(&run, "C05 other kinds", OTHER_TOK.len(), k, 2, |_| false, |s, t| {
        let p: String = s.iter().map(|i| OTHER_TOK[*i]).collect();
        if !(p.contains('<') || p.contains('>') || p.contains('{') || p.contains('}')) {
            return;
        }
        t.transitions += other_names.len() as u64;
        check_other_kind(t, &p, &other_names);
    });
    let n = run.pick(4, 5);
    let names = all_names(4);
    run.bound(format!(
        "{} patterns of <= {} tokens (minus those with '**' or more than 3 '*') x {} names",
        seqs::count(TOK.len(), n),
        n,
        names.len()
    ));
    let prune = |s: &[usize]| {
        s.iter().filter(|i| TOK[**i] == "*").count() > 3
            || s.windows(2).any(|w| TOK[w[0]] == "*" && TOK[w[1]] == "*")
    };
    seqs::par_seqs(&run, "C05 patterns", TOK.len(), n, 2, prune, |s, t| {
        let p: String = s.iter().map(|i| TOK[*i]).collect();
        t.transitions += names.len() as u64;
        check(t, &p, &names);
        t.sample(run.seed, s.iter().fold(5u64, |a, x| a * 13 + *x as u64), || json!({"pattern": p, "against": format!("all {} names", names.len())}));
        // malformed variants: an unclosed '[' (bare, or with a member) inserted
        // at every position after which no ']' occurs
        if s.len() <= 3 {
            let toks: Vec<&str> = s.iter().map(|i| TOK[*i]).collect();
            for pos in 0..=toks.len() {
                let tail: String = toks[pos..].concat();
                if tail.contains(']') {
                    continue;
                }
                for ins in ["[", "[a", "[!a", "[a-"] {
                    let bad: String = toks[..pos].concat() + ins + &tail;
                    check_malformed(t, &bad);
                }
            }
        }
    });
    // other dialects' notation: the texts of fnmatch's character classes inside a bracket set.
    // Where the text is NOT a complete class in any dialect ("[:digit:]" on its own is a plain
    // set everywhere, "[[:digit]" never closes the class) the subset's reading is demanded; a
    // complete class, collating symbol or equivalence class inside a set is outside the stated
    // subset (fnmatch reads a class, a plain set parser reads members) - there only "compiles
    // or is rejected, and matching returns" is demanded
    {
        let mut t = Tally::new();
        let mut decided: Vec<String> = vec![];
        let mut open: Vec<String> = vec![];
        for class in ["alnum", "alpha", "digit", "lower", "upper", "xdigit", "space", "punct", "blank", "cntrl", "graph", "print"] {
            for shape in ["[:{}:]", "[[:{}]", "x[:{}:]y", "[!:{}:]", "foo-[:{}:]*"] {
                decided.push(shape.replace("{}", class));
            }
            for shape in ["foo-[[:{}:]]*", "[[:{}:]]", "x[[:{}:]]y", "[![:{}:]]", "[[:{}:]-z]", "[a[:{}:]]*", "[[:{}:]", "[[.{}.]]", "[[={}=]]"] {
                open.push(shape.replace("{}", class));
            }
        }
        let mut names: Vec<String> = ["foo-1.0", "foo-d]", "foo-:]", "foo-[]", "a", "1", ":]", "[]", "d]", "x1y", "xd]y", "x:]y", "A]", "a]", "z]", "-z]", "t-z]", "b", ":", "[", "1]x", "a:]", "p]", ".]", "=]"].iter().map(|x| x.to_string()).collect();
        names.extend(["foo-", "x]y", "]", "", "g]", "l]", "xdy", "x:y", "foo-d", "foo-:1", "d", "t"].iter().map(|x| x.to_string()));
        run.bound(format!("other dialects' notation: {} patterns in which the text of one of 12 fnmatch classes is a plain set (verdict demanded) and {} in which it is a complete class, collating symbol or equivalence class inside a set (only: no panic) x {} names", decided.len(), open.len(), names.len()));
        for p in &decided {
            t.states += 1;
            t.transitions += names.len() as u64;
            check(&mut t, p, &names);
        }
        for p in &open {
            t.states += 1;
            t.evals += 1;
            t.validated += 1;
            let r = guard(|| Pattern::new(p).map(|c| names.iter().filter(|n| c.matches(n)).count()).is_ok());
            match r {
                Ok(_) => t.outcome("class-notation/returns (verdict not constrained)"),
                Err(m) => t.violation(Violation::new("glob", case(p, None), json!("returns"), json!(format!("panic: {}", m)), "compiling or matching a glob panicked")),
            }
        }
        run.merge(t);
    }
    // scale: long patterns and names
    {
        let mut t = Tally::new();
        let mut count = 0;
        for n in [16usize, 64, 255, 256, 257, 1000, 4096] {
            let lit = "ab".repeat(n / 2);
            let pats = [
                lit.clone(),
                format!("{}*", lit),
                format!("*{}", lit),
                format!("{}-[0-9]*", lit),
                format!("{}?{}", lit, lit),
                format!("{}[ab]", "?".repeat(n - 1)),
                format!("a*{}*b", &lit[..n / 2]),
            ];
            let names = vec![
                lit.clone(),
                format!("{}a", lit),
                format!("{}-1.0", lit),
                format!("{}x{}", lit, lit),
                format!("b{}", &lit[1..]),
                format!("a{}", &lit[1..]),
                format!("{}-", lit),
                format!("a{}b", lit),
            ];
            for p in &pats {
                t.states += 1;
                count += 1;
                check(&mut t, p, &names);
            }
        }
        run.bound(format!("scale: {} glob / plain patterns of 16..4096 characters x 8 names each", count));
        run.merge(t);
    }
    // character sweep: every ASCII and 64 special non-ASCII characters as a literal in patterns and names
    {
        let chars: Vec<char> = mc_core::chars::all().into_iter().filter(|c| !"*?[]{}<>".contains(*c)).collect();
        run.bound(format!("character sweep: {} characters in 8 pattern shapes x 10 names, and as candidates for 22 class/range patterns x 11 names", chars.len()));
        let mut t = Tally::new();
        for c in chars {
            let names: Vec<String> = vec![
                format!("{}", c), format!("{}a", c), format!("a{}", c), "a".into(), String::new(), format!("{}{}", c, c), format!("a{}a", c), format!("a{}b", c), format!("x{}", c), format!("{}-1.0", c),
            ];
            let mut pats = vec![format!("{}", c), format!("{}a", c), format!("a{}", c), format!("{}*", c), format!("*{}", c), format!("?{}", c), format!("a{}[ab]", c)];
            if c == '\\' {
                // the statement's glob subset does not say whether a backslash escapes: only plain
                // (meta-free) patterns, which are exact names
                pats.truncate(3);
            }
            if !"!^-\\".contains(c) {
                pats.push(format!("[!{}]x", c));
                pats.push(format!("[{}a]", c));
            }
            for p in &pats {
                t.states += 1;
                check(&mut t, p, &names);
            }
            // the character as a candidate for classes and ranges it is not a member of (or is)
            let names2: Vec<String> = vec![
                format!("{}", c), format!("a{}", c), format!("a{}1", c), format!("{}1", c), format!("a-{}", c), format!("a-{}.0", c), format!("a-1{}", c), format!("ab{}", c),
                format!("mutt-{}", c), format!("mutt-{}.2", c), format!("mutt-1{}", c),
            ];
            for p in ["[0-9]", "[0-9]*", "a[0-9]*", "a-[0-9]*", "mutt-[0-9]*", "a[0-9]", "a[0-9]1", "*[0-9]", "[a-z]", "[A-Z]*", "a[a-z]", "[!0-9]", "a[!0-9]*", "a-[!a-z]*", "[0-9a-zA-Z]", "a[ -~]", "[!-~]", "ab[!a-z0-9]", "a-1[0-9]", "a-[0-9]*.0", "?[0-9]", "a?"] {
                t.states += 1;
                check(&mut t, p, &names2);
            }
        }
        // glob metacharacters as set members are literals
        let names3: Vec<String> = ["*", "?", "a", "a?b", "a*b", "axb", "ab", "", "**", "a*", "a?", "[", "[*]", "x"].iter().map(|s| s.to_string()).collect();
        for p in ["[*]", "[?]", "[*a]", "a[?]b", "[!*]", "a[*?]", "[?]*", "*[*]", "a[*]b"] {
            t.states += 1;
            check(&mut t, p, &names3);
        }
        run.merge(t);
    }
    run.finish();
}
