//! C10 - distinfo files round-trip byte-exactly, including non-UTF-8 names.

use mc_core::model::digest as mdigest;
use mc_core::model::distinfo::{self as md, File, Model, ALGOS};
use mc_core::par::par_items;
use mc_core::{bytes_from_json, bytes_json, guard, Run, Tally, Violation};
use pkgsrc::digest::Digest;
use pkgsrc::distinfo::{Checksum, Distinfo, Entry};
use serde_json::{json, Value};
use std::ffi::{OsStr, OsString};
use std::os::unix::ffi::{OsStrExt, OsStringExt};
use std::str::FromStr;

fn rcs_lines() -> Vec<Option<Vec<u8>>> {
    let mk = |user: &[u8]| {
        let mut v = b"$NetBSD: distinfo,v 1.42 2024/09/01 12:00:00 ".to_vec();
        v.extend_from_slice(user);
        v.extend_from_slice(b" Exp $");
        Some(v)
    };
    let with_tail = |tail: &[u8]| {
        let mut v = mk(b"ken").unwrap();
        v.extend_from_slice(tail);
        Some(v)
    };
    vec![None, mk(b"ken"), mk(b"k\xe9n"), mk(b"k\xc3\xa0n"), mk(b"k\xc3\x85n"), with_tail(b" "), with_tail(b"\t\r")]
}

fn dist_names() -> Vec<Vec<u8>> {
    vec![
        b"f.tgz".to_vec(),
        b"sub/f.tgz".to_vec(),
        b"a/b/f".to_vec(),
        b"f\xc3\xa0".to_vec(),
        b"f\xc3\x85".to_vec(),
        b"f\xe9".to_vec(),
        b"f(1)".to_vec(),
        b"patch-2.7.6.tar.xz".to_vec(),
        b"\xa0x\x85".to_vec(),
        b"patch-aa.orig".to_vec(),
        b"patch-2.7.6.tar.xz.sig".to_vec(),
        b"emul-x-patch-1.tar.old.bz2".to_vec(),
        b"emul-x-patch-aa.orig".to_vec(),
    ]
}

fn patch_names() -> Vec<Vec<u8>> {
    vec![
        b"patch-aa".to_vec(),
        b"patch-src_\xc3\xa9.c".to_vec(),
        b"patch-\xe9".to_vec(),
        b"emul-x-patch-a".to_vec(),
        b"patch-\xc3\xa0\xc3\x85".to_vec(),
    ]
}

/// The hash word is opaque to the round trip: besides lower-case hex, upper-case and mixed-case
/// hex and a word with non-hex characters are generated (chosen by name and algorithm).
fn hash_for(algo: &str, name: &[u8]) -> String {
    let base = mdigest::digest(algo, name);
    match (name.len() + algo.len()) % 4 {
        0 => base,
        1 => base.to_uppercase(),
        2 => format!("{}{}", base[..base.len() / 2].to_uppercase(), &base[base.len() / 2..]),
        _ => format!("{}+/=Zz", &base[..8]),
    }
}

fn file(name: &[u8], algos: &[usize], size: Option<u64>) -> File {
    File {
        name: name.to_vec(),
        checksums: algos.iter().map(|a| (ALGOS[*a].to_string(), hash_for(ALGOS[*a], name))).collect(),
        size,
    }
}

/// every ordered non-empty subset of the six algorithms
fn ordered_subsets() -> Vec<Vec<usize>> {
    let mut out = vec![];
    fn rec(cur: &mut Vec<usize>, out: &mut Vec<Vec<usize>>) {
        if !cur.is_empty() {
            out.push(cur.clone());
        }
        for a in 0..6 {
            if !cur.contains(&a) {
                cur.push(a);
                rec(cur, out);
                cur.pop();
            }
        }
    }
    rec(&mut vec![], &mut out);
    out
}

const SIZES: [Option<u64>; 4] = [None, Some(0), Some(1), Some(u64::MAX)];
const SHAPES: [&[usize]; 3] = [&[3], &[0, 5], &[5, 4, 3, 2, 1, 0]];

fn entry_model(e: &Entry) -> File {
    File {
        name: e.filename.as_os_str().as_bytes().to_vec(),
        checksums: e.checksums.iter().map(|c| (c.digest.to_string(), c.hash.clone())).collect(),
        size: e.size,
    }
}

fn distinfo_model(d: &Distinfo) -> Model {
    Model {
        rcsid: d.rcsid().map(|r| r.as_bytes().to_vec()),
        distfiles: d.distfiles().iter().map(|e| entry_model(e)).collect(),
        patchfiles: d.patchfiles().iter().map(|e| entry_model(e)).collect(),
    }
}

fn check_model(t: &mut Tally, m: &Model) {
    let text = md::serialise(m);
    let case = || json!({"file": bytes_json(&text)});
    // 1. parse -> write reproduces the canonical file byte for byte
    t.evals += 1;
    t.validated += 1;
    match guard(|| {
        let d = Distinfo::from_bytes(&text);
        (d.as_bytes(), distinfo_model(&d))
    }) {
        Ok((out, parsed)) => {
            if out != text {
                t.violation(Violation::new("file", case(), bytes_json(&text), bytes_json(&out), "from_bytes(file).as_bytes() differs from the canonical file"));
                return;
            }
            // a file whose Id line is the unexpanded "$NetBSD$" may be reported as having that Id or none
            let parsed = {
                let mut p = parsed;
                if m.rcsid.is_none() && p.rcsid.as_deref() == Some(&b"$NetBSD$"[..]) {
                    p.rcsid = None;
                }
                p
            };
            if &parsed != m {
                t.violation(Violation::new("file", case(), json!(format!("{:?}", m)), json!(format!("{:?}", parsed)), "parsed fields differ from the file's content"));
                return;
            }
        }
        Err(msg) => {
            t.violation(Violation::new("file", case(), json!("returns"), json!(format!("panic: {}", msg)), "distinfo parse/write panicked"));
            return;
        }
    }
    // 2. API-built -> write -> parse yields the same fields; Entry::as_bytes is the entry's slice
    t.evals += 1;
    t.validated += 1;
    let r = guard(|| {
        let mut d = Distinfo::new();
        if let Some(r) = &m.rcsid {
            d.set_rcsid(&OsString::from_vec(r.clone()));
        }
        let mut slices_ok = true;
        for f in m.distfiles.iter().chain(m.patchfiles.iter()) {
            let cks: Vec<Checksum> = f
                .checksums
                .iter()
                .map(|(a, h)| Checksum::new(Digest::from_str(a).expect("algorithm name"), h.clone()))
                .collect();
            let e = Entry::new(OsStr::from_bytes(&f.name), OsStr::from_bytes(b"/nonexistent/x"), cks, f.size);
            let is_patch = md::classify(&f.name) == md::Class::Patch;
            if e.as_bytes() != md::file_bytes(f, true) && !(is_patch && f.size.is_none() && e.as_bytes() == md::file_bytes(f, false)) {
                slices_ok = false;
            }
            let _ = d.insert(e);
        }
        let out = d.as_bytes();
        let back = distinfo_model(&Distinfo::from_bytes(&out));
        (out, back, distinfo_model(&d), slices_ok)
    });
    match r {
        Ok((out, back, built, slices_ok)) => {
            if &built != m {
                t.violation(Violation::new("api", case(), json!(format!("{:?}", m)), json!(format!("{:?}", built)), "getters of the API-built Distinfo differ from what was inserted"));
            } else if &back != m {
                t.violation(Violation::new("api", case(), json!(format!("{:?}", m)), json!(format!("{:?}", back)), "parse(as_bytes(API-built)) differs from what was inserted"));
            } else if out != text || !slices_ok {
                // the statement promises field equality after parsing back, not a particular layout
                // of what the API writes, and does not mention Entry::as_bytes
                t.outcome("roundtrip/api-layout-differs-from-canonical (not demanded)");
            } else {
                let non_utf8 = std::str::from_utf8(&text).is_err();
                let tricky = text.windows(1).any(|w| w[0] == 0x85 || w[0] == 0xa0);
                if non_utf8 || tricky {
                    t.nontrivial += 1;
                }
                t.outcome(if non_utf8 { "roundtrip/non-utf8" } else if tricky { "roundtrip/utf8-with-85-or-a0" } else { "roundtrip/ascii-or-plain-utf8" });
            }
        }
        Err(msg) => t.violation(Violation::new("api", case(), json!("returns"), json!(format!("panic: {}", msg)), "distinfo API panicked")),
    }
}

fn replay(doc: &Value) -> Option<Violation> {
    let bytes = bytes_from_json(&doc["case"]["file"]);
    let m = md::parse(&bytes);
    let mut t = Tally::new();
    check_model(&mut t, &m);
    t.violations.into_iter().next()
}

fn main() {
    let run = Run::from_args("C10");
    if let Some(doc) = run.replay_case() {
        run.finish_replay(replay(doc), replay(doc));
    }
    run.rule(
        "canonical files generated from a bounded grammar: RCS Id line (default, ASCII, lone E9, \
         C3 A0, C3 85 in the user name) x 0-2 distfiles x 0-2 patches, names from pools containing \
         DIST_SUBDIR components, valid UTF-8 with continuation bytes A0/85, invalid UTF-8, \
         parentheses and classifier edge names; checksums = every ordered non-empty subset of the \
         six algorithms for the first file; sizes absent/0/1/2^64-1. Every dimension swept fully \
         with the others at default, then pairs of dimensions. For each file: \
         from_bytes(f).as_bytes() == f and the parsed fields; and the same content built through \
         Entry::new/insert/set_rcsid writes the same bytes, parses back to the same fields, with \
         Entry::as_bytes equal to the entry's lines. Non-trivial = files containing non-UTF-8 \
         bytes or the bytes 85/A0.",
    );
    run.assume("patch entries carry no size line; hash words are opaque non-blank text (lower-, upper-, mixed-case hex and a word with +/=); one RCS Id line (statement's canonical layout)");
    run.assume("reference serialiser/parser: mc/core/src/model/distinfo.rs");

    let rcs = rcs_lines();
    let dn = dist_names();
    let pn = patch_names();
    let subsets = ordered_subsets();
    let mut models: Vec<Model> = vec![];
    // A: rcs x first distfile name x size x optional patch
    for r in &rcs {
        for d in &dn {
            for s in SIZES {
                for p in std::iter::once(None).chain(pn.iter().map(Some)) {
                    models.push(Model {
                        rcsid: r.clone(),
                        distfiles: vec![file(d, SHAPES[1], s)],
                        patchfiles: p.map(|p| vec![file(p, SHAPES[0], None)]).unwrap_or_default(),
                    });
                }
            }
        }
        // no files at all, patches only
        models.push(Model { rcsid: r.clone(), distfiles: vec![], patchfiles: vec![] });
        for p in &pn {
            for sh in SHAPES {
                models.push(Model { rcsid: r.clone(), distfiles: vec![], patchfiles: vec![file(p, sh, None)] });
            }
        }
    }
    // B: every ordered subset of algorithms for the first file
    let b_names: Vec<&Vec<u8>> = if run.thorough() { dn.iter().collect() } else { vec![&dn[0], &dn[3], &dn[5]] };
    for sub in &subsets {
        for d in &b_names {
            for s in [None, Some(7u64)] {
                models.push(Model { rcsid: None, distfiles: vec![file(d, sub, s)], patchfiles: vec![] });
            }
        }
        if run.thorough() || sub.len() <= 3 {
            for p in &pn {
                models.push(Model { rcsid: rcs[2].clone(), distfiles: vec![], patchfiles: vec![file(p, sub, None)] });
            }
        }
    }
    // C: two distfiles and two patches, all ordered pairs of names
    for (i, d1) in dn.iter().enumerate() {
        for (j, d2) in dn.iter().enumerate() {
            if i == j {
                continue;
            }
            for s1 in SIZES {
                for s2 in [None, Some(u64::MAX)] {
                    for (sh1, sh2) in [(0, 1), (2, 0), (1, 2)] {
                        models.push(Model {
                            rcsid: rcs[(i + j) % rcs.len()].clone(),
                            distfiles: vec![file(d1, SHAPES[sh1], s1), file(d2, SHAPES[sh2], s2)],
                            patchfiles: vec![file(&pn[(i + j) % pn.len()], SHAPES[sh1], None)],
                        });
                    }
                }
            }
        }
    }
    for (i, p1) in pn.iter().enumerate() {
        for (j, p2) in pn.iter().enumerate() {
            if i == j {
                continue;
            }
            for (sh1, sh2) in [(0, 1), (2, 0), (1, 2), (0, 0)] {
                for nd in 0..=2usize {
                    models.push(Model {
                        rcsid: rcs[(i * 2 + j) % rcs.len()].clone(),
                        distfiles: dn.iter().skip(i + j).take(nd).map(|d| file(d, SHAPES[sh2], Some(3))).collect(),
                        patchfiles: vec![file(p1, SHAPES[sh1], None), file(p2, SHAPES[sh2], None)],
                    });
                }
            }
        }
    }
    run.bound(format!("{} canonical files (5 RCS lines, {} distfile names, {} patch names, {} ordered algorithm subsets, 4 sizes, up to 2+2 files)", models.len(), dn.len(), pn.len(), subsets.len()));
    // harness self-check: names of the pools classify as intended and are pairwise distinct
    for d in &dn {
        if md::classify(d) != md::Class::Dist {
            run.fault("harness: a distfile pool name classifies as patch");
        }
    }
    for p in &pn {
        if md::classify(p) != md::Class::Patch {
            run.fault("harness: a patch pool name does not classify as patch");
        }
    }
    // scale: many files, many checksums per file, long names
    for nfiles in [9usize, 16, 17, 33, 64, 130] {
        let mut m = Model { rcsid: rcs[1].clone(), distfiles: vec![], patchfiles: vec![] };
        for k in 0..nfiles {
            let name = format!("dist/sub{}/file-{}.{}.tar.gz", k % 4, k, "x".repeat(k % 9));
            let algos: Vec<usize> = (0..=(k % 6)).map(|a| (a + k) % 6).collect();
            m.distfiles.push(file(name.as_bytes(), &algos, if k % 5 == 0 { None } else { Some(1u64 << (k % 64)) }));
            let pname = format!("patch-{}{}", "a".repeat(1 + k % 7), k);
            m.patchfiles.push(file(pname.as_bytes(), &algos, None));
        }
        let long = [b"d/".as_slice(), &b"n".repeat(300), b"\xe9.tgz"].concat();
        m.distfiles.push(file(&long, SHAPES[2], Some(u64::MAX)));
        models.push(m);
    }
    // byte sweep: every byte value inside and at the end of the RCS Id line, and inside a distfile / patch name
    for b in 0u16..=255 {
        let b = b as u8;
        if b == b'\n' {
            continue;
        }
        let blank = b == b' ' || (0x09..=0x0d).contains(&b);
        let mut r = b"$NetBSD: distinfo,v 1.".to_vec();
        r.push(b);
        r.extend_from_slice(b" Exp $");
        let mut r2 = b"$NetBSD: distinfo,v 1.1 Exp $".to_vec();
        r2.push(b);
        let dname = if blank || b == b'/' { b"plain.tgz".to_vec() } else { [b"d".as_slice(), &[b], b"x.tgz"].concat() };
        let pname = if blank || b == b'/' { b"patch-plain".to_vec() } else { [b"patch-a".as_slice(), &[b], b"b"].concat() };
        let p_ok = md::classify(&pname) == md::Class::Patch;
        for rcs in [r, r2] {
            models.push(Model {
                rcsid: Some(rcs),
                distfiles: vec![file(&dname, SHAPES[1], Some(b as u64))],
                patchfiles: if p_ok { vec![file(&pname, SHAPES[0], None)] } else { vec![] },
            });
        }
    }
    run.bound("scale: files with 9..130 distfiles and as many patches (1-6 checksums each, sizes 2^k), and a 300-byte non-UTF-8 name");
    par_items(&run, "C10 files", &models, |i, m, t| {
        t.states += 1;
        t.transitions += 2;
        check_model(t, m);
        t.sample(run.seed, i as u64, || json!({"file": bytes_json(&md::serialise(m))}));
    });
    run.finish();
}
