//! C09 - streamed pkg_summary parsing is independent of how the bytes are
//! chunked (explicit-state search over real `SummaryStream` objects covering
//! every partition of each stream).

use mc_core::model::summary::{self as ms, Entry, Kind, Val, VARS};
use mc_core::par::par_items;
use mc_core::{bytes_json, guard, unhex, Run, Tally, Violation};
use mc_drivers::summary_state;
use pkgsrc::summary::SummaryStream;
use serde_json::{json, Value};
use std::io::Write;

fn entry(tag: &str, style: usize, full: bool) -> Entry {
    let mut e = Entry::new();
    for (i, (n, k, req)) in VARS.iter().enumerate() {
        if !req && !full {
            continue;
        }
        let v = match k {
            Kind::S => Val::S(match (style, *n) {
                (_, "PKGNAME") => format!("{}-1.{}", tag, style),
                (1, "COMMENT") => "caf\u{e9} na\u{ef}ve \u{2014} \u{1f600} a=b ".to_string(),
                (0, "COMMENT") => " ".to_string(),
                (1, "CATEGORIES") => String::new(),
                (2, "COMMENT") => "\u{65e5}\u{672c}\u{8a9e}=\u{00a0}\u{0085}x".to_string(),
                (2, "OPSYS") => "\u{1f4a9}".to_string(),
                _ => format!("{} {}", n.to_lowercase(), tag),
            }),
            Kind::I => Val::I(if style == 2 { -7 } else { 1024 + style as i64 }),
            Kind::A => Val::A(match style {
                1 => vec!["l\u{ed}ne one".into(), "".into(), "".into(), "x=y\t".into()],
                2 => vec!["\u{1f600}".into()],
                _ => vec![format!("{} line", tag)],
            }),
        };
        e.insert(i, v);
    }
    e
}

fn stream_of(entries: &[Entry]) -> Vec<u8> {
    let mut s = String::new();
    for e in entries {
        s.push_str(&ms::print(e));
        s.push('\n');
    }
    s.into_bytes()
}

#[derive(Clone)]
struct Spec {
    name: String,
    bytes: Vec<u8>,
    /// expected entries, in order (for a malformed stream: the well-formed
    /// ones preceding the bad entry)
    expect: Vec<Entry>,
    /// Some(end) = the stream's entry number `expect.len()` is malformed and
    /// is complete once byte `end - 1` has been written
    bad_end: Option<usize>,
    /// the stream is in canonical form, so printing the collection must reproduce it
    canonical: bool,
}

/// A spec whose expectation is derived from the bytes with the reference parser: entries are
/// the "\n\n"-terminated pieces, the first piece the reference parser rejects is the bad entry.
fn derived_spec(name: &str, bytes: Vec<u8>, canonical: bool) -> Spec {
    let mut expect = vec![];
    let mut bad_end = None;
    let mut start = 0;
    while let Some(k) = bytes[start..].windows(2).position(|w| w == b"\n\n") {
        let end = start + k + 2;
        // an entry that is not UTF-8 is malformed
        match std::str::from_utf8(&bytes[start..end - 1]).ok().and_then(|t| ms::parse(t).ok()) {
            Some(e) => expect.push(e),
            None => {
                bad_end = Some(end);
                break;
            }
        }
        start = end;
    }
    Spec { name: name.to_string(), bytes, expect, bad_end, canonical }
}

fn good_spec(name: &str, entries: Vec<Entry>) -> Spec {
    Spec { name: name.into(), bytes: stream_of(&entries), expect: entries, bad_end: None, canonical: true }
}

fn bad_spec(k: usize, fault: usize) -> Spec {
    let es: Vec<Entry> = (0..4).map(|i| entry(&format!("m{}", i), i % 3, false)).collect();
    let mut bytes = vec![];
    let mut bad_end = 0;
    for (i, e) in es.iter().enumerate() {
        let mut text = ms::print(e);
        if i == k {
            text = match fault {
                0 => text.replacen("COMMENT=", "COMMENT", 1),
                1 => format!("NOT_A_VARIABLE=1\n{}", text),
                2 => text.replacen("SIZE_PKG=", "SIZE_PKG=x", 1),
                3 => text.lines().filter(|l| !l.starts_with("PKGNAME=")).map(|l| format!("{}\n", l)).collect(),
                // 4 and 5: bytes that are not UTF-8, put in below
                _ => text.replacen("COMMENT=", "COMMENT=\u{1}", 1),
            };
        }
        let mut tb = text.into_bytes();
        if i == k && fault >= 4 {
            let at = tb.iter().position(|b| *b == 1).unwrap();
            if fault == 4 {
                // a byte that can never occur in UTF-8, at the start of a value
                tb[at] = 0xff;
            } else {
                // a lead byte without its continuation, at the end of a value's line
                tb.remove(at);
                let eol = at + tb[at..].iter().position(|b| *b == b'\n').unwrap();
                tb.insert(eol, 0xc3);
            }
        }
        bytes.extend_from_slice(&tb);
        bytes.push(b'\n');
        if i == k {
            bad_end = bytes.len();
        }
    }
    Spec {
        name: format!("M(entry {} of 4, fault {})", k + 1, ["line-without-=", "unknown-variable", "bad-integer", "missing-PKGNAME", "byte-FF-in-a-value", "lead-byte-C3-before-the-newline"][fault]),
        bytes,
        expect: es[..k].to_vec(),
        bad_end: Some(bad_end),
        canonical: true,
    }
}

fn entries_of(s: &SummaryStream) -> Vec<Entry> {
    s.entries().iter().map(summary_state).collect()
}

fn case(spec: &Spec, cuts: &[usize]) -> Value {
    json!({"stream": bytes_json(&spec.bytes), "cuts": cuts, "expect_entries": spec.expect.len(), "bad_end": spec.bad_end, "name": spec.name, "canonical": spec.canonical})
}

enum Step {
    /// the entries collected so far
    Ok(Vec<Entry>),
    /// the write failed as the property demands: terminal
    Failed,
    Violation(String, Value, Value),
}

/// One real write of `spec.bytes[p..q]` on `s`, judged against the property.
fn step(spec: &Spec, s: &mut SummaryStream, p: usize, q: usize) -> Step {
    let r = guard(|| s.write(&spec.bytes[p..q]));
    let r = match r {
        Ok(r) => r,
        Err(m) => return Step::Violation("write panicked".into(), json!("returns"), json!(format!("panic: {}", m))),
    };
    let got = match guard(|| entries_of(s)) {
        Ok(g) => g,
        Err(m) => return Step::Violation("entries accessor panicked".into(), json!("returns"), json!(format!("panic: {}", m))),
    };
    match (r, spec.bad_end) {
        (Ok(n), bad) => {
            if n != q - p {
                return Step::Violation("write must report all bytes consumed".into(), json!(q - p), json!(n));
            }
            if let Some(end) = bad {
                if q >= end {
                    return Step::Violation(
                        "the write that completes the malformed entry (or an earlier one) must fail with InvalidData".into(),
                        json!("Err(InvalidData)"),
                        json!(format!("Ok({}) after byte {} (bad entry complete at {})", n, q, end)),
                    );
                }
            }
            if got.len() > spec.expect.len() || got[..] != spec.expect[..got.len()] {
                return Step::Violation(
                    "collected entries must be a prefix of the stream's entries".into(),
                    json!(format!("a prefix of {} expected entries", spec.expect.len())),
                    json!(format!("{} entries: {:?}", got.len(), got.last())),
                );
            }
            Step::Ok(got)
        }
        (Err(e), Some(_)) => {
            if e.kind() != std::io::ErrorKind::InvalidData {
                return Step::Violation("failure must be InvalidData".into(), json!("InvalidData"), json!(format!("{:?}", e.kind())));
            }
            if got != spec.expect {
                return Step::Violation(
                    "entries collected up to the failure must be exactly the well-formed entries preceding the bad one".into(),
                    json!(format!("{} entries", spec.expect.len())),
                    json!(format!("{} entries", got.len())),
                );
            }
            Step::Failed
        }
        (Err(e), None) => Step::Violation("every write of a well-formed stream must succeed".into(), json!(format!("Ok({})", q - p)), json!(format!("Err({:?}: {})", e.kind(), e))),
    }
}

fn final_check(spec: &Spec, s: &SummaryStream) -> Option<(String, Value, Value)> {
    if spec.bad_end.is_some() {
        return Some(("a malformed stream was consumed to the end without a failure".into(), json!("Err(InvalidData)"), json!("all writes Ok")));
    }
    let got = entries_of(s);
    if got != spec.expect {
        return Some(("after the last byte the collected entries must be the stream's entries".into(), json!(format!("{} entries", spec.expect.len())), json!(format!("{} entries", got.len()))));
    }
    let text = s.to_string();
    if spec.canonical && text.as_bytes() != &spec.bytes[..] {
        return Some(("printing the collection must reproduce the stream".into(), bytes_json(&spec.bytes), bytes_json(text.as_bytes())));
    }
    None
}

/// Run one explicit partition from a fresh object (no state merging).
fn run_partition(spec: &Spec, cuts: &[usize]) -> Option<Violation> {
    let mut s = SummaryStream::new();
    let mut p = 0;
    let n = spec.bytes.len();
    let mut pts: Vec<usize> = cuts.to_vec();
    pts.push(n);
    for q in pts {
        if q <= p {
            continue;
        }
        // an empty write is a legitimate chunk: it consumes nothing and changes nothing
        let before = s.entries().len();
        match guard(|| s.write(&[])) {
            Ok(Ok(0)) if s.entries().len() == before => {}
            other => return Some(Violation::new("partition", case(spec, cuts), json!("Ok(0), nothing collected"), json!(format!("{:?} ({} -> {} entries)", other.map(|r| r.map_err(|e| e.kind())), before, s.entries().len())), &format!("empty write before byte {}", p))),
        }
        match step(spec, &mut s, p, q) {
            Step::Ok(_) => {}
            Step::Failed => return None,
            Step::Violation(note, exp, obs) => return Some(Violation::new("partition", case(spec, cuts), exp, obs, &format!("{} (write of bytes {}..{})", note, p, q))),
        }
        p = q;
    }
    if spec.bad_end.is_none() {
        let before = s.entries().len();
        match guard(|| s.write(&[])) {
            Ok(Ok(0)) if s.entries().len() == before => {}
            other => return Some(Violation::new("partition", case(spec, cuts), json!("Ok(0), nothing collected"), json!(format!("{:?}", other.map(|r| r.map_err(|e| e.kind())))), "empty write after the last byte")),
        }
    }
    final_check(spec, &s).map(|(note, exp, obs)| Violation::new("partition", case(spec, cuts), exp, obs, &note))
}

type Key = (Vec<u8>, Vec<Entry>);

fn key_of(s: &SummaryStream) -> Key {
    (s.verif_buf().to_vec(), entries_of(s))
}

/// Complete transition graph of one stream: from every reached state at
/// position p, one real write for every chunk length.
fn graph(run: &Run, spec: &Spec, inner_parallel: bool) {
    let n = spec.bytes.len();
    // states[p] = distinct objects reached after exactly p bytes, with one
    // witness partition each
    let mut states: Vec<Vec<(Key, SummaryStream, Vec<usize>)>> = (0..=n).map(|_| vec![]).collect();
    let s0 = SummaryStream::new();
    states[0].push((key_of(&s0), s0, vec![]));
    let mut max_per_pos = 1;
    const STATE_CAP: usize = 48;
    let mut seq_tally = Tally::new();
    for p in 0..n {
        if run.expired() {
            run.cap_hit(format!("{}: wall-clock budget reached at position {} of {}", spec.name, p, n));
            break;
        }
        let here = std::mem::take(&mut states[p]);
        if here.is_empty() {
            continue;
        }
        max_per_pos = max_per_pos.max(here.len());
        seq_tally.states += here.len() as u64;
        for (_, obj, cuts) in &here {
            let qs: Vec<usize> = (p + 1..=n).collect();
            let out: std::sync::Mutex<Vec<(usize, Key, SummaryStream)>> = std::sync::Mutex::new(vec![]);
            let one = |q: &usize, t: &mut Tally| {
                t.transitions += 1;
                t.evals += 1;
                t.validated += 1;
                let mut s = obj.clone();
                let cut_in_char = *q < n && (spec.bytes[*q] & 0xC0) == 0x80;
                let cut_in_sep = *q < n && *q > 0 && spec.bytes[*q - 1] == b'\n' && spec.bytes[*q] == b'\n';
                if cut_in_char || cut_in_sep {
                    t.nontrivial += 1;
                }
                let path = || {
                    let mut path = cuts.clone();
                    if p > 0 {
                        path.push(p);
                    }
                    path
                };
                match step(spec, &mut s, p, *q) {
                    Step::Ok(got) => {
                        t.outcome(if cut_in_char { "ok/cut-inside-character" } else if cut_in_sep { "ok/cut-inside-separator" } else { "ok" });
                        if *q == n {
                            if let Some((note, exp, obs)) = final_check(spec, &s) {
                                t.violation(Violation::new("partition", case(spec, &path()), exp, obs, &note));
                            }
                        } else {
                            out.lock().unwrap().push((*q, (s.verif_buf().to_vec(), got), s));
                        }
                    }
                    Step::Failed => t.outcome("failed-as-required"),
                    Step::Violation(note, exp, obs) => t.violation(Violation::new("partition", case(spec, &path()), exp, obs, &format!("{} (write of bytes {}..{})", note, p, q))),
                }
                t.sample(run.seed, (p * 131 + *q) as u64, || json!({"stream": spec.name, "state_at": p, "write": [p, q]}));
            };
            if inner_parallel && qs.len() > 256 {
                par_items(run, "C09 graph", &qs, |_, q, t| one(q, t));
            } else {
                for q in &qs {
                    one(q, &mut seq_tally);
                }
            }
            let mut out = out.into_inner().unwrap();
            out.sort_by_key(|x| x.0);
            for (q, k, s) in out {
                if !states[q].iter().any(|(k2, _, _)| *k2 == k) {
                    if states[q].len() >= STATE_CAP {
                        run.cap_hit(format!("{}: more than {} distinct states at one position; further ones not expanded", spec.name, STATE_CAP));
                        continue;
                    }
                    let mut path = cuts.clone();
                    if p > 0 {
                        path.push(p);
                    }
                    states[q].push((k, s, path));
                }
            }
        }
    }
    run.merge(seq_tally);
    run.extra(&format!("max_states_per_position[{}]", spec.name), json!(max_per_pos));
}

/// Every partition with at most `c` cuts, each run from a fresh object.
fn few_cuts(run: &Run, spec: &Spec, c: usize) {
    let n = spec.bytes.len();
    let firsts: Vec<usize> = (0..n).collect(); // 0 = no cut at all
    par_items(run, "C09 few cuts", &firsts, |_, first, t| {
        let mut stack: Vec<usize> = vec![];
        fn rec(spec: &Spec, n: usize, c: usize, stack: &mut Vec<usize>, t: &mut Tally) {
            t.evals += 1;
            t.validated += 1;
            t.states += 1;
            t.transitions += stack.len() as u64 + 1;
            if let Some(v) = run_partition(spec, stack) {
                t.violation(v);
            } else {
                t.outcome("partition/ok");
            }
            if stack.len() >= c {
                return;
            }
            let lo = stack.last().copied().unwrap_or(0) + 1;
            for q in lo..n {
                stack.push(q);
                rec(spec, n, c, stack, t);
                stack.pop();
            }
        }
        if *first == 0 {
            t.evals += 1;
            t.validated += 1;
            t.states += 1;
            t.transitions += 1;
            if let Some(v) = run_partition(spec, &[]) {
                t.violation(v);
            }
        } else if c >= 1 {
            stack.push(*first);
            rec(spec, n, c, &mut stack, t);
        }
    });
}

fn fixed_chunks(run: &Run, spec: &Spec) {
    let n = spec.bytes.len();
    let sizes: Vec<usize> = (1..=n).collect();
    par_items(run, "C09 fixed chunk sizes", &sizes, |_, sz, t| {
        let cuts: Vec<usize> = (1..n).filter(|q| q % sz == 0).collect();
        t.evals += 1;
        t.validated += 1;
        t.states += 1;
        t.transitions += cuts.len() as u64 + 1;
        match run_partition(spec, &cuts) {
            Some(v) => t.violation(v),
            None => t.outcome("fixed-size/ok"),
        }
    });
}

/// Streams too large to store in a replay file are described: ("S6", number of entries) and
/// ("very-large", k).
fn described_spec(kind: &str, n: usize) -> Spec {
    if let Some(k) = kind.strip_prefix("S6-bad:").and_then(|k| k.parse::<usize>().ok()) {
        // the S6 stream of n entries in which the k-th record lost the '=' of its second line
        let good = described_spec("S6", n);
        let mut bytes = good.bytes.clone();
        let starts: Vec<usize> = std::iter::once(0).chain(bytes.windows(2).enumerate().filter(|(_, w)| *w == b"\n\n").map(|(i, _)| i + 2)).collect();
        let at = starts[k.min(starts.len() - 2)];
        let line2 = at + bytes[at..].iter().position(|b| *b == b'\n').unwrap() + 1;
        let eq = line2 + bytes[line2..].iter().position(|b| *b == b'=').unwrap();
        bytes[eq] = b' ';
        return derived_spec(&format!("S6 with a malformed record {}", k), bytes, false);
    }
    if kind == "S6" {
        let many: Vec<Entry> = (0..n).map(|i| entry(&format!("m{}", i), if i % 97 == 3 { 1 } else { 0 }, false)).collect();
        good_spec("S6 a stream larger than 1 MiB", many)
    } else {
        let k = n;
        let mut big = entry("v", 0, false);
        // 1.25 x 2^k bytes: with 48 pieces more than 2^k bytes are pending before the separator arrives
        big.insert(2, Val::S("\u{e9}v".repeat(((1usize << k) + (1usize << (k - 2))) / 3 + 1)));
        good_spec("very large entry", vec![entry("u", 0, false), big, entry("w", 2, false)])
    }
}

/// The stream delivered through the other methods of `io::Write`: `flush` after every write,
/// `write_all`, and gathered writes (`write_vectored` over the remaining chunks, advancing by
/// the count it returns).  "Any way of cutting it into successive write calls" includes these.
fn run_partition_via(spec: &Spec, cuts: &[usize], mode: u8) -> Option<Violation> {
    use std::io::IoSlice;
    let n = spec.bytes.len();
    let mut pts: Vec<usize> = vec![0];
    pts.extend(cuts.iter().copied().filter(|q| *q > 0 && *q < n));
    pts.push(n);
    pts.dedup();
    let via = ["flush after every write", "write_all", "write_vectored"][mode as usize];
    let case = || json!({"stream": bytes_json(&spec.bytes), "cuts": cuts, "via": via, "name": spec.name, "canonical": spec.canonical});
    let r = guard(|| -> Result<SummaryStream, String> {
        let mut s = SummaryStream::new();
        match mode {
            0 => {
                for w in pts.windows(2) {
                    let k = s.write(&spec.bytes[w[0]..w[1]]).map_err(|e| format!("write: {}", e))?;
                    if k != w[1] - w[0] {
                        return Err(format!("write consumed {} of {} bytes", k, w[1] - w[0]));
                    }
                    // (what a flush in the middle of an entry reports is not in the statement; it must
                    // not disturb the writes that follow)
                    let _ = s.flush();
                }
            }
            1 => {
                for w in pts.windows(2) {
                    s.write_all(&spec.bytes[w[0]..w[1]]).map_err(|e| format!("write_all: {}", e))?;
                }
            }
            _ => {
                // all chunks offered at once; what is not taken is offered again
                let mut pos = 0;
                let mut guard_rounds = 0;
                while pos < n {
                    let slices: Vec<IoSlice> = pts.windows(2).filter(|w| w[1] > pos).map(|w| IoSlice::new(&spec.bytes[w[0].max(pos)..w[1]])).collect();
                    let k = s.write_vectored(&slices).map_err(|e| format!("write_vectored: {}", e))?;
                    if k == 0 || k > n - pos {
                        return Err(format!("write_vectored returned {} with {} bytes offered", k, n - pos));
                    }
                    pos += k;
                    guard_rounds += 1;
                    if guard_rounds > n + 2 {
                        return Err("write_vectored makes no progress".into());
                    }
                }
            }
        }
        s.flush().map_err(|e| format!("flush: {}", e))?;
        Ok(s)
    });
    match r {
        Err(m) => Some(Violation::new("via", case(), json!("returns"), json!(format!("panic: {}", m)), "a Write method panicked")),
        Ok(Err(e)) => Some(Violation::new("via", case(), json!("every call succeeds"), json!(e), "a well-formed stream was refused")),
        Ok(Ok(s)) => final_check(spec, &s).map(|(note, exp, obs)| Violation::new("via", case(), exp, obs, &note)),
    }
}

/// A stream copied in mid-flight (after byte `q`): the clone, an object overwritten with
/// clone_from (it had received other bytes before), and a Default::default() object that got
/// the same prefix all continue with the rest of the stream and must end like the original.
fn run_copies(spec: &Spec, q: usize) -> Option<Violation> {
    let n = spec.bytes.len();
    let case = || json!({"stream": bytes_json(&spec.bytes), "cut": q, "name": spec.name, "canonical": spec.canonical});
    let r = guard(|| -> Result<Vec<(&'static str, SummaryStream)>, String> {
        let mut s = SummaryStream::new();
        s.write_all(&spec.bytes[..q]).map_err(|e| format!("write: {}", e))?;
        let mut c = s.clone();
        let mut o = SummaryStream::new();
        // the overwritten object was in the middle of another entry
        let _ = o.write(&spec.bytes[..(q / 2).max(1).min(n)]);
        o.clone_from(&s);
        let mut d = SummaryStream::default();
        d.write_all(&spec.bytes[..q]).map_err(|e| format!("write on a default object: {}", e))?;
        let mut out = vec![];
        for (what, x) in [("the original", &mut s), ("the clone", &mut c), ("the clone_from copy", &mut o), ("the Default::default() object", &mut d)] {
            x.write_all(&spec.bytes[q..]).map_err(|e| format!("{}: write: {}", what, e))?;
        }
        out.push(("the original", s));
        out.push(("the clone", c));
        out.push(("the clone_from copy", o));
        out.push(("the Default::default() object", d));
        Ok(out)
    });
    match r {
        Err(m) => Some(Violation::new("copies", case(), json!("returns"), json!(format!("panic: {}", m)), "copying a stream panicked")),
        Ok(Err(e)) => Some(Violation::new("copies", case(), json!("every write succeeds"), json!(e), "a well-formed stream was refused")),
        Ok(Ok(list)) => {
            for (what, s) in list {
                if let Some((note, exp, obs)) = final_check(spec, &s) {
                    return Some(Violation::new("copies", case(), exp, obs, &format!("{}: {}", what, note)));
                }
            }
            None
        }
    }
}

/// Writes that go on after a failed write: no panic (the statement says nothing else about them).
fn after_failure(spec: &Spec, q: usize) -> Option<Violation> {
    let r = guard(|| {
        let mut s = SummaryStream::new();
        let _ = s.write(&spec.bytes[..q]);
        let _ = s.write(&spec.bytes[q..]);
        let _ = s.write(b"");
        let _ = s.write(b"\n\n");
        let _ = s.write(b"x");
        let _ = s.write(&spec.bytes[..q]);
        (s.entries().len(), s.to_string().len())
    });
    match r {
        Ok(_) => None,
        Err(m) => Some(Violation::new("after-failure", json!({"stream": bytes_json(&spec.bytes), "cut": q, "name": spec.name}), json!("later writes return (Ok or Err)"), json!(format!("panic: {}", m)), "writing on after a failed write panicked")),
    }
}

fn replay(doc: &Value) -> Option<Violation> {
    let c = &doc["case"];
    let cuts_of = |c: &Value| -> Vec<usize> { c["cuts"].as_array().map(|a| a.iter().filter_map(|x| x.as_u64().map(|v| v as usize)).collect()).unwrap_or_default() };
    if let Some(kind) = c["described"].as_str() {
        let spec = described_spec(kind, c["n"].as_u64().unwrap_or(20) as usize);
        return run_partition(&spec, &cuts_of(c)).map(|mut v| {
            v.case = c.clone();
            v
        });
    }
    if doc["kind"] == "via" {
        let bytes = unhex(c["stream"]["hex"].as_str().unwrap_or(""));
        let spec = derived_spec(c["name"].as_str().unwrap_or("replay"), bytes, c["canonical"].as_bool().unwrap_or(true));
        let mode = match c["via"].as_str() { Some("write_all") => 1, Some("write_vectored") => 2, _ => 0 };
        return run_partition_via(&spec, &cuts_of(c), mode);
    }
    if doc["kind"] == "copies" {
        let bytes = unhex(c["stream"]["hex"].as_str().unwrap_or(""));
        let spec = derived_spec(c["name"].as_str().unwrap_or("replay"), bytes, c["canonical"].as_bool().unwrap_or(true));
        return run_copies(&spec, c["cut"].as_u64().unwrap_or(1) as usize);
    }
    if doc["kind"] == "after-failure" {
        let bytes = unhex(c["stream"]["hex"].as_str().unwrap_or(""));
        let spec = derived_spec(c["name"].as_str().unwrap_or("replay"), bytes, false);
        return after_failure(&spec, c["cut"].as_u64().unwrap_or(1) as usize);
    }
    let bytes = unhex(c["stream"]["hex"].as_str().unwrap_or(""));
    let cuts: Vec<usize> = c["cuts"].as_array().map(|a| a.iter().filter_map(|x| x.as_u64().map(|v| v as usize)).collect()).unwrap_or_default();
    // rebuild the expectation from the stream with the reference parser
    let spec = derived_spec(c["name"].as_str().unwrap_or("replay"), bytes, c["canonical"].as_bool().unwrap_or(true));
    run_partition(&spec, &cuts)
}

fn main() {
    let run = Run::from_args("C09");
    if let Some(doc) = run.replay_case() {
        run.finish_replay(replay(doc), replay(doc));
    }
    run.rule(
        "for each stream, the complete transition graph: a state is a real SummaryStream object \
         after p bytes, a transition one real write of bytes p..q for EVERY q > p; states merged by \
         (carry-over buffer, collected entries) = the object's complete state, so every partition \
         of the stream (2^(n-1)) is a path of the graph and every path is explored. On every \
         transition: Ok(all bytes), entries a prefix of the expected list; at the end: entries == \
         expected == single-write result, to_string() == stream. Malformed streams: the write \
         reaching the end of the bad entry must fail with InvalidData with exactly the preceding \
         entries collected. Complement without merging: every partition with <= 3 cuts, every \
         fixed chunk size, byte-at-a-time, each from a fresh object. Non-trivial = transitions \
         whose chunk ends inside a multi-byte character or inside the blank-line separator.",
    );
    run.assume("SummaryStream's fields are the carry-over buffer (read through the verif hook) and the entry vector, so (buffer, entries) is its complete state (tripwire on size_of)");
    run.assume("streams are canonical (variables in the fixed order), values without CR/LF");
    if std::mem::size_of::<SummaryStream>() != std::mem::size_of::<Vec<u8>>() + std::mem::size_of::<Vec<u8>>() {
        run.cap_hit("SummaryStream gained a field: the state key may be incomplete; the unmerged partition runs remain valid, the graph is not called exhaustive");
    }

    let s1 = good_spec("S1 one minimal ASCII entry", vec![entry("a", 0, false)]);
    let s2 = good_spec(
        "S2 three entries with 2/3/4-byte characters, '=' and empty values",
        vec![entry("b", 1, false), entry("c", 2, false), entry("d", 0, false)],
    );
    let s2f = good_spec("S2F two full entries (23 variables) with multi-byte values", vec![entry("e", 1, true), entry("f", 2, true)]);
    let mut good = vec![s1.clone(), s2.clone(), s2f];
    if run.thorough() {
        good.push(good_spec(
            "S3 five full entries",
            (0..5).map(|i| entry(&format!("g{}", i), i % 3, true)).collect(),
        ));
    }
    for s in &good {
        run.bound(format!("{}: {} bytes, all 2^{} partitions via the complete graph ({} transitions)", s.name, s.bytes.len(), s.bytes.len() - 1, s.bytes.len() * (s.bytes.len() + 1) / 2));
    }
    let mut bad = vec![];
    for k in 0..4 {
        for f in 0..6 {
            if run.thorough() || (k + f) % 2 == 0 || f == 3 || f == 4 {
                bad.push(bad_spec(k, f));
            }
        }
    }
    run.bound(format!("{} malformed streams (bad entry position x fault kind), complete graph each", bad.len()));
    // the other methods of io::Write: every single cut and every pair of cuts of S1, every single cut
    // of S2, each delivered with a flush after every write, through write_all, and as gathered writes
    {
        run.bound("Write-trait methods: S1 with every <= 2 cuts, S2 with every single cut, x {flush after every write, write_all, write_vectored over the remaining chunks}");
        for (spec, maxcuts) in [(&s1, 2usize), (&s2, 1usize)] {
            let n = spec.bytes.len();
            let firsts: Vec<usize> = (0..n).collect();
            par_items(&run, "C09 Write-trait methods", &firsts, |_, a, t| {
                let mut cutsets: Vec<Vec<usize>> = vec![if *a == 0 { vec![] } else { vec![*a] }];
                if maxcuts >= 2 && *a > 0 {
                    for b in *a + 1..n {
                        cutsets.push(vec![*a, b]);
                    }
                }
                for cuts in cutsets {
                    for mode in 0..3u8 {
                        t.evals += 1;
                        t.validated += 1;
                        t.states += 1;
                        t.transitions += cuts.len() as u64 + 1;
                        match run_partition_via(spec, &cuts, mode) {
                            None => t.outcome("via/ok"),
                            Some(v) => t.violation(v),
                        }
                    }
                }
            });
        }
    }
    // copies taken in mid-flight: every cut of S1 and S2
    {
        run.bound("copies: S1 and S2 copied after every byte (clone, clone_from into a used object, Default::default()), each copy continued to the end");
        for spec in [&s1, &s2] {
            let cuts: Vec<usize> = (0..=spec.bytes.len()).collect();
            par_items(&run, "C09 copies", &cuts, |_, q, t| {
                t.evals += 4;
                t.validated += 4;
                t.states += 1;
                t.transitions += 8;
                match run_copies(spec, *q) {
                    None => t.outcome("copies/ok"),
                    Some(v) => t.violation(v),
                }
            });
        }
    }
    // (the small families first: a wall-clock budget reached on a slow machine then cuts the tail of
    // the big graphs, never a whole family)
    // a collector that is written to again after a failed write must not panic: for each malformed
    // stream and every single cut, the writes go on after the failure
    {
        let mut t = Tally::new();
        for spec in &bad {
            let n = spec.bytes.len();
            for q in 1..n {
                t.evals += 1;
                t.validated += 1;
                t.states += 1;
                t.transitions += 6;
                match after_failure(spec, q) {
                    None => t.outcome("after-failure/no-panic"),
                    Some(v) => t.violation(v),
                }
            }
        }
        run.bound(format!("writing on after a failure: {} malformed streams x every single cut, four more writes after the end", bad.len()));
        run.merge(t);
    }
    // junk sweep: one extra character (every ASCII character, 64 special ones, NUL) at the
    // start of the stream, of a later line, of the second entry, at the end of a line, and alone
    // on a line inside the separator; the expectation is derived from the text with the reference
    // parser; every single cut and the uncut write
    {
        let base = stream_of(&[entry("j", 1, false), entry("k", 0, false)]);
        let text = String::from_utf8(base).unwrap();
        let second = text.find("\n\n").unwrap() + 2;
        let line2 = text.find('\n').unwrap() + 1;
        let eol = text[line2..].find('\n').unwrap() + line2;
        let mut chars = mc_core::chars::all();
        chars.push('\0'); // CR is outside the statement's domain (no line breaks inside values)
        let mut specs = vec![];
        for c in &chars {
            for (what, at, alone) in [("stream start", 0usize, false), ("line start", line2, false), ("second entry start", second, false), ("line end", eol, false), ("alone in the separator", second - 1, true)] {
                let mut tx = text.clone();
                if alone {
                    tx.insert_str(at, &format!("{}\n", c));
                } else {
                    tx.insert(at, *c);
                }
                specs.push(derived_spec(&format!("junk U+{:04X} at {}", *c as u32, what), tx.into_bytes(), false));
            }
        }
        // the byte order mark also byte by byte, and doubled
        // (prefixes that make an empty first record or a leading empty line are not generated:
        // the statement does not say whether an empty string is an entry)
        for pre in [&b"\xef\xbb\xbf\xef\xbb\xbf"[..], b"\xef\xbb\xbf \n", b"\xef\xbb\xbfx\n\n"] {
            let mut b = pre.to_vec();
            b.extend_from_slice(text.as_bytes());
            specs.push(derived_spec(&format!("prefix {:?}", String::from_utf8_lossy(pre)), b, false));
        }
        run.bound(format!("junk sweep: {} streams ({} characters x 5 positions, 3 prefixes), each uncut and with every single cut", specs.len(), chars.len()));
        par_items(&run, "C09 junk sweep", &specs, |_, spec, t| {
            let n = spec.bytes.len();
            for q in 0..n {
                let cuts: Vec<usize> = if q == 0 { vec![] } else { vec![q] };
                t.evals += 1;
                t.validated += 1;
                t.states += 1;
                t.transitions += cuts.len() as u64 + 1;
                match run_partition(spec, &cuts) {
                    Some(v) => t.violation(v),
                    None => t.outcome(if spec.bad_end.is_some() { "junk/rejected" } else { "junk/accepted" }),
                }
            }
        });
    }
    // a small write that stops before / inside / after a record separator, then a LARGE one
    // (2^16-1, 2^16, 2^16+1, 2^17 bytes, or all the rest): what is pending when a big block arrives
    {
        let mid_entries = 1300;
        let mid = described_spec("S6", mid_entries);
        let n = mid.bytes.len();
        let seps: Vec<usize> = mid.bytes.windows(2).enumerate().filter(|(_, w)| *w == b"\n\n").map(|(i, _)| i).collect();
        let picked: Vec<usize> = seps.iter().copied().step_by(25).filter(|i| i + 2 + 131_072 < n).collect();
        run.bound(format!("a small write, then a large one: a stream of {} bytes, first write ending before / inside / after each of {} record separators, second write of 2^16-1, 2^16, 2^16+1, 2^17 bytes or all the rest", n, picked.len()));
        par_items(&run, "C09 small then large", &picked, |_, i, t| {
            for first in [*i, *i + 1, *i + 2] {
                for second in [0usize, 65_535, 65_536, 65_537, 131_072] {
                    let cuts: Vec<usize> = if second == 0 { vec![first] } else { vec![first, first + second] };
                    t.evals += 1;
                    t.validated += 1;
                    t.states += 1;
                    t.transitions += cuts.len() as u64 + 1;
                    t.nontrivial += 1;
                    match run_partition(&mid, &cuts) {
                        Some(mut v) => {
                            v.case = json!({"described": "S6", "n": mid_entries, "cuts": cuts, "note": "the stream is regenerated from its description"});
                            t.violation(v)
                        }
                        None => t.outcome("scale/small-then-large-ok"),
                    }
                }
            }
        });
    }
    // a large stream with ONE malformed record (early, in the middle, last), written at once, in
    // halves, in 64 KiB pieces and with cuts just before / at the end of the faulty record: the write that completes
    // the record fails, and exactly the records in front of it have been collected
    {
        let n_entries = 1300usize;
        let ks: Vec<usize> = vec![0, 1, 95, 96, 97, 650, 1298, 1299];
        run.bound(format!("a large malformed stream: {} entries (~330 KB), the record at index {:?} lacking an '=', written in one call, in halves, in 64 KiB and 100 000-byte pieces, and with cuts just before / at the end of the faulty record", n_entries, ks));
        par_items(&run, "C09 large malformed", &ks, |_, k, t| {
            let kind = format!("S6-bad:{}", k);
            let spec = described_spec(&kind, n_entries);
            let n = spec.bytes.len();
            let Some(bad_end) = spec.bad_end else {
                mc_core::run::machinery_fault("the large malformed stream is not malformed (the stream generator changed)");
            };
            for cuts in [vec![], vec![n / 2], (1..n).filter(|q| q % 65_536 == 0).collect::<Vec<usize>>(), (1..n).filter(|q| q % 100_000 == 0).collect::<Vec<usize>>(), vec![bad_end - 1], vec![bad_end], vec![bad_end.saturating_sub(200).max(1), bad_end - 1]] {
                t.evals += 1;
                t.validated += 1;
                t.states += 1;
                t.transitions += cuts.len() as u64 + 1;
                t.nontrivial += 1;
                match run_partition(&spec, &cuts) {
                    Some(mut v) => {
                        v.case = json!({"described": kind, "n": n_entries, "cuts": cuts, "note": "the stream is regenerated from its description"});
                        t.violation(v)
                    }
                    None => t.outcome("scale/large-malformed-rejected-with-its-prefix"),
                }
            }
        });
    }
    // small streams: one worker per stream; large ones: workers inside the graph
    let (large, small): (Vec<&Spec>, Vec<&Spec>) = good.iter().chain(bad.iter()).partition(|s| s.bytes.len() > 2500);
    par_items(&run, "C09 streams", &small, |_, s, _| {
        graph(&run, s, false);
    });
    for s in large {
        graph(&run, s, true);
    }
    let all: Vec<&Spec> = good.iter().chain(bad.iter()).collect();
    for s in all {
        fixed_chunks(&run, s);
    }
    run.bound(format!("unmerged: every partition of S1 with <= 3 cuts, of S2 with <= {} cuts, of each malformed stream with <= 1 cut", run.pick(1, 2)));
    few_cuts(&run, &s1, 3);
    few_cuts(&run, &s2, run.pick(1, 2));
    for s in &bad {
        few_cuts(&run, s, 1);
    }
    // scale: streams larger than any plausible internal buffer.  The complete graph is out of
    // reach here; explored instead: every chunk size from a ladder around powers of two, and every
    // pair of cuts taken from the neighbourhoods of 4 KiB multiples and of entry boundaries.
    let many: Vec<Entry> = (0..run.pick(120, 400)).map(|i| entry(&format!("s{}", i), if i % 17 == 3 { 1 } else if i % 29 == 5 { 2 } else { 0 }, i % 40 == 7)).collect();
    let big = good_spec("S4 many small entries", many);
    let mut huge_entry = entry("h", 1, false);
    huge_entry.insert(2, Val::S("\u{e9}x".repeat(24_000)));
    let huge = good_spec("S5 an entry with a 72 KB value between two small ones", vec![entry("g", 0, false), huge_entry, entry("i", 2, false)]);
    {
        let s6_entries = run.pick(9000, 20000);
        let mega = described_spec("S6", s6_entries);
        let n = mega.bytes.len();
        run.bound(format!("{}: {} bytes; written in one call, in two halves, and in 1 MiB-1 / 1 MiB / 1 MiB+1 / 64 KiB chunks", mega.name, n));
        let sizes: Vec<usize> = vec![n, n / 2 + 1, (1 << 20) - 1, 1 << 20, (1 << 20) + 1, 65536, 65537];
        par_items(&run, "C09 mega stream", &sizes, |_, sz, t| {
            let cuts: Vec<usize> = (1..n).filter(|q| q % sz == 0).collect();
            t.evals += 1;
            t.validated += 1;
            t.states += 1;
            t.transitions += cuts.len() as u64 + 1;
            t.nontrivial += 1;
            match run_partition(&mega, &cuts) {
                Some(mut v) => {
                    // keep the replay file small: the stream is regenerated from its description
                    v.case = json!({"described": "S6", "n": s6_entries, "cuts": cuts, "note": "the stream is regenerated from its description"});
                    t.violation(v)
                }
                None => t.outcome("scale/mega-ok"),
            }
        });
    }
    for spec in [&big, &huge] {
        let n = spec.bytes.len();
        let mut sizes: Vec<usize> = vec![1, 2, 3, 7, 64, 100, 1000, n - 1, n];
        for k in 9..=17 {
            for d in [-1i64, 0, 1] {
                let v = ((1i64 << k) + d) as usize;
                if v < n {
                    sizes.push(v);
                }
            }
        }
        sizes.sort();
        sizes.dedup();
        run.bound(format!("{}: {} bytes; {} fixed chunk sizes; cut pairs around 4 KiB multiples and record ends", spec.name, n, sizes.len()));
        par_items(&run, "C09 scale chunk sizes", &sizes, |_, sz, t| {
            if *sz == 1 && n > 40_000 {
                return; // byte-at-a-time over a 70 KB record is quadratic by construction of the buffer
            }
            let cuts: Vec<usize> = (1..n).filter(|q| q % sz == 0).collect();
            t.evals += 1;
            t.validated += 1;
            t.states += 1;
            t.transitions += cuts.len() as u64 + 1;
            t.nontrivial += 1;
            match run_partition(spec, &cuts) {
                Some(v) => t.violation(v),
                None => t.outcome("scale/fixed-size-ok"),
            }
        });
        // interesting cut positions
        let mut pts: Vec<usize> = vec![];
        for m in (4096..n).step_by(4096) {
            for d in [-1i64, 0, 1] {
                pts.push((m as i64 + d) as usize);
            }
        }
        for (i, w) in spec.bytes.windows(2).enumerate() {
            if w == b"\n\n" && i % 5 == 0 {
                pts.push(i + 1);
                pts.push(i + 2);
            }
        }
        pts.retain(|p| *p > 0 && *p < n);
        pts.sort();
        pts.dedup();
        if pts.len() > 160 {
            let step = pts.len() / 160 + 1;
            pts = pts.into_iter().step_by(step).collect();
        }
        par_items(&run, "C09 scale cut pairs", &pts, |_, a, t| {
            for b in &pts {
                if b <= a {
                    continue;
                }
                t.evals += 1;
                t.validated += 1;
                t.states += 1;
                t.transitions += 3;
                match run_partition(spec, &[*a, *b]) {
                    Some(v) => t.violation(v),
                    None => t.outcome("scale/cut-pair-ok"),
                }
            }
        });
    }
    // very large entries: one entry with a value of 2^k + 1 bytes (k = 20..25, thorough 26) between
    // two small ones, written in one call and in eight chunks; nothing about a well-formed
    // stream depends on how large an entry is
    {
        let ks: Vec<u32> = (20..=run.pick(25, 26) as u32).collect();
        run.bound(format!("very large entries: a value of 1.25 x 2^k bytes for k = 20..={}, single write, 8 and 48 chunks", ks.last().unwrap()));
        par_items(&run, "C09 very large entries", &ks, |_, k, t| {
            let spec = described_spec("very-large", *k as usize);
            let n = spec.bytes.len();
            // 8 pieces, and 48 pieces (so that almost the whole entry is pending without a separator)
            for cuts in [vec![], (1..8).map(|i| i * (n / 8) + 1).collect::<Vec<usize>>(), (1..48).map(|i| i * (n / 48) + 1).collect::<Vec<usize>>()] {
                t.evals += 1;
                t.validated += 1;
                t.states += 1;
                t.transitions += cuts.len() as u64 + 1;
                t.nontrivial += 1;
                match run_partition(&spec, &cuts) {
                    Some(mut v) => {
                        v.case = json!({"described": "very-large", "n": k, "cuts": cuts, "note": "the COMMENT value is 'e-acute v' repeated to 1.25 x 2^n bytes; the stream is regenerated from its description"});
                        t.violation(v)
                    }
                    None => t.outcome("scale/very-large-entry-ok"),
                }
            }
        });
    }
    run.finish();
}
