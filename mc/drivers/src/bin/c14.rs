//! C14 - PLIST parses to one entry per non-blank line, arguments kept byte
//! for byte.

use mc_core::model::plist as mp;
use mc_core::seqs;
use mc_core::{bytes_from_json, bytes_json, guard, Run, Tally, Violation};
use mc_drivers::plist_entry_model;
use pkgsrc::plist::{Plist, PlistEntry};
use serde_json::{json, Value};

/// A TAB directly after a command word ("@cwd\t/x"): the statement calls TAB a blank but does not
/// say whether it ends the command word.  Such texts are judged by self-consistency only.
fn tab_ends_command(text: &[u8]) -> bool {
    text.split(|c| *c == b'\n').any(|l| {
        let l = &l[l.iter().position(|b| !matches!(*b, b' ' | b'\t')).unwrap_or(l.len())..];
        l.first() == Some(&b'@') && l.iter().position(|b| *b == b'\t').map(|t| t < l.iter().position(|b| *b == b' ').unwrap_or(l.len())).unwrap_or(false)
    })
}

fn check_line(t: &mut Tally, line: &[u8]) {
    if tab_ends_command(line) {
        check_text_self(t, line);
        return;
    }
    t.evals += 1;
    t.validated += 1;
    let want = mp::parse_line(line);
    let got = guard(|| PlistEntry::from_bytes(line).map(|e| plist_entry_model(&e)).map_err(|_| ()));
    match got {
        Ok(g) if g == want => {}
        Ok(g) => t.violation(Violation::new("line", json!({"line": bytes_json(line)}), json!(format!("{:?}", want)), json!(format!("{:?}", g)), "PlistEntry::from_bytes differs from the command table (file unless it begins with '@'; argument stripped of leading blanks only; required/optional/forbidden; raw vs UTF-8)")),
        Err(m) => t.violation(Violation::new("line", json!({"line": bytes_json(line)}), json!(format!("{:?}", want)), json!(format!("panic: {}", m)), "line parser panicked")),
    }
}

fn check_text(t: &mut Tally, text: &[u8]) {
    if tab_ends_command(text) {
        check_text_self(t, text);
        return;
    }
    t.evals += 1;
    t.validated += 1;
    let want = mp::parse(text);
    let case = || json!({"text": bytes_json(text)});
    let got = guard(|| {
        Plist::from_bytes(text)
            .map(|p| p.verif_entries().iter().map(plist_entry_model).collect::<Vec<_>>())
            .map_err(|_| ())
    });
    let counted = text.split(|c| *c == b'\n').filter(|l| mp::line_counts(l)).count();
    match got {
        Ok(g) if g == want => {
            match &want {
                Ok(v) => {
                    t.outcome(match v.len() {
                        0 => "ok/no-entries",
                        1 => "ok/one-entry",
                        _ => "ok/several-entries",
                    });
                    let has_single = text.split(|c| *c == b'\n').any(|l| l.iter().filter(|b| !matches!(**b, b' ' | b'\t')).count() == 1 && mp::line_counts(l));
                    if has_single || counted >= 2 {
                        t.nontrivial += 1;
                    }
                }
                Err(()) => {
                    t.outcome("err/some-line-invalid");
                    t.nontrivial += 1;
                }
            }
        }
        Ok(g) => {
            let note = match (&want, &g) {
                (Ok(w), Ok(x)) if w.len() != x.len() => format!("{} lines contain a non-whitespace byte but {} entries were produced", counted, x.len()),
                (Ok(_), Ok(_)) => "entries differ from parsing each line alone".to_string(),
                (Ok(_), Err(())) => "every line is valid but the list was rejected".to_string(),
                (Err(()), Ok(_)) => "a line is invalid (unknown command or argument violation) but the list was accepted".to_string(),
                _ => String::new(),
            };
            t.violation(Violation::new("text", case(), json!(format!("{:?}", want)), json!(format!("{:?}", g)), &note));
        }
        Err(m) => t.violation(Violation::new("text", case(), json!(format!("{:?}", want)), json!(format!("panic: {}", m)), "PLIST parser panicked")),
    }
}

/// Bytes of which the statement does not say whether they count as white space.
const AMBIGUOUS: [u8; 5] = [0x0b, 0x0c, 0x0d, 0x85, 0xa0];

/// Self-consistency form of the property for texts containing such bytes: every line with a
/// byte that is neither blank nor ambiguous yields exactly one entry, equal to what
/// `PlistEntry::from_bytes` gives for that line alone (an error there rejects the list); blank
/// lines yield nothing; a line of blanks and ambiguous bytes only may yield nothing or its
/// own entry.  No reference model is involved.
fn check_text_self(t: &mut Tally, text: &[u8]) {
    t.evals += 1;
    t.validated += 1;
    let case = || json!({"text": bytes_json(text), "self_consistency": true});
    let got = guard(|| Plist::from_bytes(text).map(|p| p.verif_entries().iter().map(plist_entry_model).collect::<Vec<_>>()).map_err(|_| ()));
    let got = match got {
        Ok(g) => g,
        Err(m) => {
            t.violation(Violation::new("self", case(), json!("returns"), json!(format!("panic: {}", m)), "PLIST parser panicked"));
            return;
        }
    };
    // per line: None = no entry, Some(Ok/Err) = the line's own parse; `optional` lines may be skipped
    let mut lines: Vec<(bool, Result<_, ()>)> = vec![];
    for line in text.split(|c| *c == b'\n') {
        let solid = line.iter().any(|b| !matches!(*b, b' ' | b'\t') && !AMBIGUOUS.contains(b));
        let any_ambiguous = line.iter().any(|b| AMBIGUOUS.contains(b));
        if !solid && !any_ambiguous {
            continue;
        }
        let own = guard(|| PlistEntry::from_bytes(line).map(|e| plist_entry_model(&e)).map_err(|_| ())).unwrap_or(Err(()));
        lines.push((!solid, own));
    }
    // admissible results: choose for every optional line whether it is skipped
    let opt: Vec<usize> = (0..lines.len()).filter(|i| lines[*i].0).collect();
    let mut admissible = false;
    let mut first_want = None;
    for mask in 0u32..(1 << opt.len().min(8)) {
        let mut want: Result<Vec<_>, ()> = Ok(vec![]);
        for (i, (_, own)) in lines.iter().enumerate() {
            if let Some(k) = opt.iter().position(|x| *x == i) {
                if mask >> k & 1 == 1 {
                    continue;
                }
            }
            match (own, &mut want) {
                (Ok(e), Ok(v)) => v.push(e.clone()),
                (Err(()), _) => want = Err(()),
                _ => {}
            }
        }
        if first_want.is_none() {
            first_want = Some(want.clone());
        }
        if want == got {
            admissible = true;
            break;
        }
    }
    if admissible {
        t.outcome(if got.is_ok() { "self/ok" } else { "self/err" });
        t.nontrivial += 1;
    } else {
        t.violation(Violation::new("self", case(), json!(format!("{:?}", first_want)), json!(format!("{:?}", got)), "each entry must equal what parsing its line alone gives, one entry per line with a non-whitespace byte"));
    }
}

const BYTES: [u8; 6] = [b'a', b'@', b' ', b'\t', b'\n', 0xe9];

fn line_alphabet() -> Vec<Vec<u8>> {
    let mut v: Vec<Vec<u8>> = vec![];
    for (cmd, _, _) in mp::COMMANDS.iter() {
        v.push(cmd.as_bytes().to_vec());
        v.push(format!("{} arg", cmd).into_bytes());
    }
    for cmd in ["@cwd", "@mode", "@comment", "@ignore", "@name", "@option", "@exec"] {
        v.push(format!("{} ", cmd).into_bytes());
        v.push(format!("{}  \t", cmd).into_bytes());
        v.push(format!("{}   two  words ", cmd).into_bytes());
        v.push(format!("{} \u{e9}\u{20ac}", cmd).into_bytes());
        v.push([cmd.as_bytes(), b" \xf8x"].concat());
    }
    for l in ["@cwd /a/", "@cwd /a//b", "@cwd /a/./b", "@cd //", "@src ./a", "@pkgdir d/", "@exec a//b /"] {
        v.push(l.as_bytes().to_vec());
    }
    v.push(b"@option preserve".to_vec());
    v.push(b"@option  preserve".to_vec());
    v.push(b"@option preserve ".to_vec());
    for (cmd, _, _) in mp::COMMANDS.iter() {
        // one character more, one character fewer, a non-UTF-8 byte appended
        v.push(format!("{}x arg", cmd).into_bytes());
        v.push(format!("{} arg", &cmd[..cmd.len() - 1]).into_bytes());
        v.push([cmd.as_bytes(), b"\xff arg"].concat());
    }
    for l in ["@commentary x", "@displayname y", "@foo", "@foo bar", "@", "@ cwd", "@CWD /x", "@cwdx /x", "a", "bin/x y", " lead", "+F", "x@y", "\u{e9}", "", " ", "\t "] {
        v.push(l.as_bytes().to_vec());
    }
    v.push(b"\xf8".to_vec());
    v.push(b" @cwd /x".to_vec());
    v
}

fn replay(doc: &Value) -> Option<Violation> {
    let mut t = Tally::new();
    match doc["kind"].as_str() {
        Some("line") => check_line(&mut t, &bytes_from_json(&doc["case"]["line"])),
        Some("self") => check_text_self(&mut t, &bytes_from_json(&doc["case"]["text"])),
        _ => check_text(&mut t, &bytes_from_json(&doc["case"]["text"])),
    }
    t.violations.into_iter().next()
}

fn main() {
    let run = Run::from_args("C14");
    if let Some(doc) = run.replay_case() {
        run.finish_replay(replay(doc), replay(doc));
    }
    run.rule(
        "(a) every byte string of length <= L over {a, @, SP, TAB, LF, 0xE9}: entry count and order \
         (one entry per line containing a non-whitespace byte, with or without a final newline, \
         single-byte lines at every position), each entry equal to parsing its line alone; \
         (b) every sequence of <= N lines over a line alphabet holding every supported command \
         with argument absent and present, seven commands with five more argument shapes (blank \
         only, trailing blank, extra blanks, UTF-8, non-UTF-8), @option variants, unknown commands, \
         file lines (leading blank, '@' inside, non-UTF-8) and blank lines; every alphabet line \
         also through PlistEntry::from_bytes. Oracle: per-line reference parser from the command \
         table. Non-trivial = texts with a single-character line, several entries, or an error.",
    );
    run.assume("blanks are SP/TAB; bytes 0x85/0xA0 and CR/VT/FF are not generated (the statement does not say whether they are blanks)");
    run.assume("reference line parser and command table: mc/core/src/model/plist.rs; entries read through the verif hook Plist::verif_entries");

    let l = run.pick(7, 10);
    run.bound(format!("(a) all {} byte strings of length <= {} over 6 bytes", seqs::count(6, l), l));
    seqs::par_seqs(&run, "C14(a)", BYTES.len(), l, 3, |_| false, |s, t| {
        let text: Vec<u8> = s.iter().map(|i| BYTES[*i]).collect();
        check_text(t, &text);
        t.sample(run.seed, s.iter().fold(1u64, |a, x| a * 11 + *x as u64), || json!({"text": bytes_json(&text)}));
    });

    let alpha = line_alphabet();
    let mut t = Tally::new();
    for line in &alpha {
        t.states += 1;
        check_line(&mut t, line);
    }
    run.merge(t);
    let n = run.pick(3, 4);
    run.bound(format!("(b) all {} sequences of <= {} lines over a {}-line alphabet, each with and without the final newline", seqs::count(alpha.len(), n), n, alpha.len()));
    seqs::par_seqs(&run, "C14(b)", alpha.len(), n, 2, |_| false, |s, t| {
        let mut text = vec![];
        for i in s {
            text.extend_from_slice(&alpha[*i]);
            text.push(b'\n');
        }
        check_text(t, &text);
        if !text.is_empty() {
            t.transitions += 1;
            check_text(t, &text[..text.len() - 1]);
        }
    });
    // scale: thousands of lines, very long lines
    {
        let mut t = Tally::new();
        let valid: Vec<&Vec<u8>> = alpha.iter().filter(|l| !mp::line_counts(l) || mp::parse_line(l).is_ok()).collect();
        for (n, stride) in [(100usize, 1usize), (1000, 7), (5000, 13), (20000, 5)] {
            let mut text = vec![];
            for i in 0..n {
                text.extend_from_slice(valid[(i * stride) % valid.len()]);
                text.push(b'\n');
            }
            t.states += 1;
            t.transitions += n as u64;
            check_text(&mut t, &text);
            text.pop();
            check_text(&mut t, &text);
        }
        for len in [255usize, 256, 257, 4095, 4096, 4097, 65_536, 100_000] {
            for prefix in [&b""[..], b"@comment ", b"@cwd /", b"@exec ", b"@name ", b" "] {
                let mut line = prefix.to_vec();
                line.extend(std::iter::repeat(b'x').take(len));
                t.states += 1;
                check_line(&mut t, &line);
                let text = [b"a\n".as_slice(), &line, b"\n@ignore\nb"].concat();
                check_text(&mut t, &text);
            }
        }
        run.bound("scale: texts of 100..20000 valid alphabet lines; lines of 255..100000 bytes after six prefixes");
        run.merge(t);
    }
    // typed-looking arguments: what another parser of the library would canonicalise or reject
    // (paths, digests, numbers, patterns that do and do not compile) is an argument like any
    // other for every command; and the directives of sibling tools (older pkg_install, FreeBSD
    // and OpenBSD packing lists) are unknown commands, not entries of some nearby kind
    {
        let mut t = Tally::new();
        let mut values: Vec<&str> = mc_core::chars::TYPED_VALUES.to_vec();
        values.extend(mc_core::chars::BROKEN_PATTERNS);
        // (a line has no line break in it, and VT / FF / CR are bytes the statement leaves open)
        values.retain(|v| !v.contains(['\n', '\r', '\x0b', '\x0c']));
        for (cmd, _, _) in mp::COMMANDS.iter() {
            for v in &values {
                let line = format!("{} {}", cmd, v).into_bytes();
                t.states += 1;
                check_line(&mut t, &line);
                check_text(&mut t, &[b"@name p-1\n".as_slice(), &line, b"\nbin/x\n"].concat());
            }
        }
        for v in &values {
            // ... and a file name like any other
            let line = v.as_bytes().to_vec();
            t.states += 1;
            check_line(&mut t, &line);
            check_text(&mut t, &[b"@cwd /p\n".as_slice(), &line, b"\n"].concat());
        }
        const FOREIGN: [&str; 64] = [
            "@mtree", "@srcdir", "@dir", "@dirrmtry", "@rmtry", "@conflicts", "@depend", "@depends", "@pkgconflict", "@noinst", "@sample", "@info", "@shell", "@kld", "@preexec", "@postexec",
            "@preunexec", "@postunexec", "@fc", "@fcfontsdir", "@fontsdir", "@terminfo", "@glib-schemas", "@desktop-file-utils", "@config", "@stopdaemon", "@bin", "@lib", "@man", "@extra", "@newuser", "@newgroup",
            "@arch", "@wantlib", "@tag", "@define-tag", "@url", "@sha", "@size", "@ts", "@link", "@symlink", "@mandir", "@rcscript", "@ask-update", "@signer", "@digital-signature", "@file",
            "@ignore_inst", "@origin", "@deporigin", "@exec-add", "@unexec-delete", "@endfake", "@localbase", "@pkgpath", "@vendor", "@extraunexec", "@cwdir", "@chdir", "@blddeps", "@pkgdeps", "@version", "@provides",
        ];
        for cmd in FOREIGN {
            for line in [cmd.to_string(), format!("{} +MTREE_DIRS", cmd), format!("{} p-[0-9]*", cmd), format!("{} ", cmd)] {
                let line = line.into_bytes();
                t.states += 1;
                check_line(&mut t, &line);
                check_text(&mut t, &[b"@name p-1\n".as_slice(), &line, b"\nbin/x\n"].concat());
            }
        }
        run.bound(format!("typed-looking arguments: {} values (typed-looking texts, patterns that do and do not compile) after every command and as a file name; {} directives of sibling tools x 4 argument shapes", values.len(), FOREIGN.len()));
        run.merge(t);
    }
    // byte sweep: every byte value in nine line positions
    {
        let mut t = Tally::new();
        let mut n = 0;
        for b in 0u16..=255 {
            let b = b as u8;
            // LF ends a line; VT FF CR 0x85 0xA0 are bytes of which the statement does not say whether they are blanks
            if [b'\n', 0x0b, 0x0c, 0x0d, 0x85, 0xa0].contains(&b) {
                continue;
            }
            n += 1;
            let lines: Vec<Vec<u8>> = vec![
                vec![b], vec![b, b'x'], vec![b'x', b], vec![b'@', b], [b"@cwd ".as_slice(), &[b]].concat(), [b"@cwd x".as_slice(), &[b]].concat(),
                [b"@comment".as_slice(), &[b], b"x"].concat(), [b"@name ".as_slice(), &[b]].concat(), [b"f ".as_slice(), &[b]].concat(),
            ];
            for line in lines {
                t.states += 1;
                check_line(&mut t, &line);
                check_text(&mut t, &[b"a\n".as_slice(), &line, b"\nb\n"].concat());
                check_text(&mut t, &line);
            }
        }
        run.bound(format!("byte sweep: {} byte values in nine line positions", n));
        run.merge(t);
    }
    // the bytes VT FF CR 0x85 0xA0 *after* the first solid byte of a file name or argument are
    // not ambiguous: "stripped only of leading blanks and otherwise preserved exactly"
    {
        let mut t = Tally::new();
        for b in AMBIGUOUS {
            let mut lines: Vec<Vec<u8>> = vec![
                vec![b'x', b], vec![b'x', b, b'y'], [b"bin/foo".as_slice(), &[b]].concat(), [b"f ".as_slice(), &[b]].concat(),
            ];
            for (cmd, _, _) in mp::COMMANDS.iter() {
                lines.push([cmd.as_bytes(), b" x", &[b]].concat());
                lines.push([cmd.as_bytes(), b" x", &[b], b"y"].concat());
                lines.push([cmd.as_bytes(), b" /a/b ", &[b]].concat());
            }
            for line in lines {
                t.states += 1;
                check_line(&mut t, &line);
                check_text(&mut t, &[b"a\n".as_slice(), &line, b"\nb\n"].concat());
                check_text(&mut t, &[line.as_slice(), b"\n"].concat());
            }
        }
        // every command with the five argument shapes (blank only, trailing blank, several
        // blanks, UTF-8, not UTF-8), alone and between two other lines
        for (cmd, _, _) in mp::COMMANDS.iter() {
            let shapes: Vec<Vec<u8>> = vec![
                format!("{} ", cmd).into_bytes(), format!("{}  \t", cmd).into_bytes(), format!("{}   two  words ", cmd).into_bytes(), format!("{} \u{e9}\u{20ac}", cmd).into_bytes(),
                [cmd.as_bytes(), b" \xf8x"].concat(), [cmd.as_bytes(), b" \0"].concat(), [cmd.as_bytes(), b" a\0b"].concat(), format!("{} preserve", cmd).into_bytes(), format!("{} @cwd /x", cmd).into_bytes(),
            ];
            for line in shapes {
                t.states += 1;
                check_line(&mut t, &line);
                check_text(&mut t, &[b"@cwd /p\n".as_slice(), &line, b"\nbin/x\n"].concat());
                check_text(&mut t, &line);
            }
        }
        run.merge(t);
    }
    // the ambiguous bytes (VT FF CR 0x85 0xA0) by self-consistency: every byte string of length
    // <= 5 over {a, @, SP, LF, CR, VT}, and each ambiguous byte in the nine positions and at the
    // end / start of every alphabet line
    {
        const B2: [u8; 6] = [b'a', b'@', b' ', b'\n', b'\r', 0x0b];
        let l2 = run.pick(6, 7);
        run.bound(format!("self-consistency: all {} byte strings of length <= {} over {{a, @, SP, LF, CR, VT}}; 5 ambiguous bytes x (nine positions + before/after every alphabet line)", seqs::count(6, l2), l2));
        seqs::par_seqs(&run, "C14 self", B2.len(), l2, 3, |_| false, |s, t| {
            let text: Vec<u8> = s.iter().map(|i| B2[*i]).collect();
            check_text_self(t, &text);
        });
        let mut t = Tally::new();
        for b in AMBIGUOUS {
            let mut lines: Vec<Vec<u8>> = vec![
                vec![b], vec![b, b'x'], vec![b'x', b], vec![b'@', b], [b"@cwd ".as_slice(), &[b]].concat(), [b"@cwd x".as_slice(), &[b]].concat(),
                [b"@comment".as_slice(), &[b], b"x"].concat(), [b"@name ".as_slice(), &[b]].concat(), [b"f ".as_slice(), &[b]].concat(), vec![b' ', b], vec![b, b],
            ];
            for a in &alpha {
                lines.push([a.as_slice(), &[b]].concat());
                lines.push([&[b], a.as_slice()].concat());
            }
            for line in lines {
                t.states += 1;
                check_text_self(&mut t, &[b"a\n".as_slice(), &line, b"\nb\n"].concat());
                check_text_self(&mut t, &line);
                check_text_self(&mut t, &[line.as_slice(), b"\n"].concat());
            }
        }
        run.merge(t);
    }
    run.finish();
}
