//! C08 - pkg_summary parsing accepts exactly complete well-formed entries,
//! otherwise says why; is_completed() agrees with the parser.

use mc_core::model::summary::{self as ms, Cause, Entry, Kind, Val, VARS};
use mc_core::seqs;
use mc_core::{guard, Run, Tally, Violation};
use mc_drivers::{summary_set, summary_state};
use pkgsrc::summary::{MissingVariable, Summary, SummaryError};
use serde_json::{json, Value};
use std::str::FromStr;

fn good_lines() -> Vec<String> {
    let mut v = vec![];
    for (n, k, _) in VARS.iter() {
        match k {
            Kind::S => {
                v.push(format!("{}=v {}", n, n.to_lowercase()));
                v.push(format!("{}=", n));
            }
            Kind::I => {
                v.push(format!("{}=12", n));
                v.push(format!("{}=-3", n));
            }
            Kind::A => {
                v.push(format!("{}=one", n));
                v.push(format!("{}=two=2", n));
            }
        }
    }
    // repeats of single-valued variables (last one wins) and awkward values
    v.push("COMMENT=trailing blank ".into());
    v.push("OPSYS= ".into());
    v.push("LICENSE=tab\t".into());
    v.push("DEPENDS=one".into()); // an adjacent duplicate of a multi-line value
    v.push("DESCRIPTION=".into());
    v.push("DESCRIPTION= ".into());
    v.push("PKGNAME=other-2.0".into());
    v.push("HOMEPAGE=http://h/?a=b=c".into());
    v
}

const FAULT_LINES: [&str; 16] = [
    "# a comment",
    "#PKGNAME=x",
    ";PKGNAME=x",
    "\tCOMMENT=x",
    "BUILD_DATE",
    "",
    "BILD_DATE=x",
    "comment=x",
    "COMMENT =x",
    " COMMENT=x",
    "=x",
    "FILE_SIZE=",
    "FILE_SIZE= 1",
    "SIZE_PKG=1x",
    "SIZE_PKG=9223372036854775808",
    "no equals sign here",
];

fn full_entry() -> Vec<String> {
    let mut v = vec![];
    for (n, k, _) in VARS.iter() {
        match k {
            Kind::S => v.push(format!("{}=full {}", n, n.to_lowercase())),
            Kind::I => v.push(format!("{}=4096", n)),
            Kind::A => {
                v.push(format!("{}=first", n));
                v.push(format!("{}=second", n));
            }
        }
    }
    v
}

fn required_entry(skip: Option<usize>) -> Vec<String> {
    let mut v = vec![];
    for (i, (n, k, req)) in VARS.iter().enumerate() {
        if !req || Some(i) == skip {
            continue;
        }
        v.push(match k {
            Kind::S => format!("{}=req {}", n, n.to_lowercase()),
            Kind::I => format!("{}=77", n),
            Kind::A => format!("{}=req line", n),
        });
    }
    v
}

fn real_cause(e: &SummaryError) -> Option<Cause> {
    Some(match e {
        SummaryError::ParseLine(_) => Cause::ParseLine,
        SummaryError::ParseVariable(_) => Cause::ParseVariable,
        SummaryError::ParseInt(_) => Cause::ParseInt,
        SummaryError::Incomplete(mv) => Cause::Incomplete(match mv {
            MissingVariable::BuildDate => 0,
            MissingVariable::Categories => 1,
            MissingVariable::Comment => 2,
            MissingVariable::Description => 5,
            MissingVariable::MachineArch => 11,
            MissingVariable::Opsys => 12,
            MissingVariable::OsVersion => 13,
            MissingVariable::Pkgname => 15,
            MissingVariable::Pkgpath => 16,
            MissingVariable::PkgtoolsVersion => 17,
            MissingVariable::SizePkg => 21,
        }),
        SummaryError::Io(_) => return None,
    })
}

/// "FILE_SIZE and SIZE_PKG are integers": a spelling with an explicit '+', leading zeros or
/// "-0" is an integer to some parsers and not to others; the statement does not say.
fn ambiguous_integer(text: &str) -> bool {
    ms::lines(text).iter().any(|l| {
        ["FILE_SIZE=", "SIZE_PKG="].iter().any(|k| match l.strip_prefix(k) {
            Some(v) => ms::parse_int(v.trim()).map(|n| n.to_string() != v).unwrap_or(false),
            None => false,
        })
    })
}

fn check_text(t: &mut Tally, text: &str) {
    if ambiguous_integer(text) {
        // still must not panic
        if let Err(m) = guard(|| Summary::from_str(text).is_ok()) {
            t.violation(Violation::new("text", json!({"text": text}), json!("returns"), json!(format!("panic: {}", m)), "parser panicked"));
        }
        t.outcome("skipped/integer-spelling-the-statement-leaves-open");
        return;
    }
    t.evals += 1;
    t.validated += 1;
    let want = ms::parse(text);
    let case = || json!({"text": text});
    let got = match guard(|| Summary::from_str(text).map(|s| summary_state(&s))) {
        Ok(g) => g,
        Err(m) => {
            t.violation(Violation::new("text", case(), json!("returns"), json!(format!("panic: {}", m)), "parser panicked"));
            return;
        }
    };
    match (&want, &got) {
        (Ok(w), Ok(g)) => {
            if w != g {
                t.violation(Violation::new("text", case(), json!(format!("{:?}", w)), json!(format!("{:?}", g)), "accepted, but values differ (value = everything after the first '='; repeated multi-line variables accumulate; repeated single-valued keep the last)"));
            } else {
                let lines = ms::lines(text).len();
                let values: usize = w.values().map(|v| match v { Val::A(a) => a.len(), _ => 1 }).sum();
                if lines != values {
                    t.nontrivial += 1; // a repeated single-valued variable
                    t.outcome("accept/with-repeats");
                } else {
                    t.outcome("accept");
                }
            }
        }
        (Err(causes), Err(e)) => {
            t.nontrivial += 1;
            // the rendered message must not name another variable than the one the error is about
            // (it may name none): upper-case words of the message that are supported variable names
            if let Some(Cause::Incomplete(i)) = real_cause(e) {
                let msg = e.to_string();
                let mut named: Vec<&str> = msg.split(|c: char| !(c.is_ascii_uppercase() || c == '_')).filter(|w| ms::var_index(w).is_some()).collect();
                named.sort();
                named.dedup();
                // only an unambiguous misnaming: exactly one variable is named, and it is another one
                if named.len() == 1 && named[0] != VARS[i].0 {
                    t.violation(Violation::new("text", case(), json!(format!("a message about {}", VARS[i].0)), json!(msg), "the error's message names a different variable than the one that is missing"));
                    return;
                }
            }
            match real_cause(e) {
                Some(c) if causes.contains(&c) => {
                    t.outcome(match c {
                        Cause::ParseLine => "reject/malformed-line",
                        Cause::ParseVariable => "reject/unknown-variable",
                        Cause::ParseInt => "reject/bad-integer",
                        Cause::Incomplete(_) => "reject/missing-required",
                    });
                }
                c => t.violation(Violation::new("text", case(), json!(format!("one of {:?}", causes)), json!(format!("{:?} ({:?})", e, c)), "the reported error is not a cause present in the text")),
            }
        }
        (Ok(_), Err(e)) => t.violation(Violation::new("text", case(), json!("Ok"), json!(format!("{:?}", e)), "a complete well-formed entry was rejected")),
        (Err(c), Ok(_)) => t.violation(Violation::new("text", case(), json!(format!("Err, causes {:?}", c)), json!("Ok"), "an entry that is malformed or incomplete was accepted")),
    }
    // is_completed() of an API-built copy of the same values agrees with "the eleven are set"
    let mut values = Entry::new();
    let mut line_fault = false;
    match &want {
        Ok(w) => values = w.clone(),
        Err(c) => {
            line_fault = c.iter().any(|x| !matches!(x, Cause::Incomplete(_)));
            if !line_fault {
                // re-derive the values that were present
                for line in ms::lines(text) {
                    if let Some(eq) = line.find('=') {
                        if let Some(i) = ms::var_index(&line[..eq]) {
                            let v = &line[eq + 1..];
                            match VARS[i].1 {
                                Kind::S => { values.insert(i, Val::S(v.into())); }
                                Kind::I => { values.insert(i, Val::I(ms::parse_int(v).unwrap_or(0))); }
                                Kind::A => match values.entry(i).or_insert_with(|| Val::A(vec![])) { Val::A(a) => a.push(v.into()), _ => {} },
                            }
                        }
                    }
                }
            }
        }
    }
    if !line_fault {
        // built twice: list variables set as a whole (on an entry from new()), and pushed line by
        // line (on an entry from Default::default())
        let r = guard(|| {
            let mut s = Summary::new();
            let mut p = Summary::default();
            for (i, v) in &values {
                summary_set(&mut s, *i, v);
                match v {
                    Val::A(lines) => {
                        for l in lines {
                            mc_drivers::summary_push(&mut p, *i, l);
                        }
                    }
                    other => summary_set(&mut p, *i, other),
                }
            }
            (s.is_completed(), p.is_completed())
        });
        let complete = ms::is_complete(&values);
        // an empty list variable cannot be produced by pushes: the pushed copy then lacks it
        let pushable = values.values().all(|v| !matches!(v, Val::A(a) if a.is_empty()));
        let r = r.map(|(a, b)| if a == complete && (b == complete || !pushable) { complete } else { !complete });
        if r != Ok(complete) {
            t.violation(Violation::new("text", case(), json!({"is_completed": complete}), json!(format!("{:?}", r)), "is_completed() of the same values built through the API disagrees with 'all eleven required variables are set'"));
        }
    }
}

fn join(lines: &[&str]) -> String {
    let mut s = String::new();
    for l in lines {
        s.push_str(l);
        s.push('\n');
    }
    s
}

fn replay(doc: &Value) -> Option<Violation> {
    let mut t = Tally::new();
    check_text(&mut t, doc["case"]["text"].as_str().unwrap_or(""));
    t.violations.into_iter().next()
}

fn main() {
    let run = Run::from_args("C08");
    if let Some(doc) = run.replay_case() {
        run.finish_replay(replay(doc), replay(doc));
    }
    run.rule(
        "line alphabet: one or two well-formed lines for each of the 23 variables, repeats and \
         awkward values, and 16 fault lines (no '=', empty, misspelt / lower-case / blank-padded \
         names, empty name, empty / blank-padded / trailing-garbage / overflowing integers). Every \
         sequence of <= N lines spliced before / inside / after three contexts (nothing; all \
         required but one; all required), with and without the final newline; every subset of the \
         11 required variables removed from the full entry; every fault line inserted at and \
         substituted for every line of the full entry; every adjacent transposition, the reversal \
         and every rotation of the full entry. Oracle: reference parser returning Ok(values) or \
         the set of admissible causes. Non-trivial = rejected texts and accepted texts with repeats.",
    );
    run.assume("values contain no CR (the statement excludes line breaks inside values)");
    run.assume("reference parser: mc/core/src/model/summary.rs");

    let mut alpha: Vec<String> = good_lines();
    alpha.extend(FAULT_LINES.iter().map(|s| s.to_string()));
    let n = run.pick(3, 4);
    let missing_one = required_entry(Some(12)); // OPSYS missing
    let all_req = required_entry(None);
    let contexts: Vec<Vec<String>> = vec![vec![], missing_one, all_req];
    run.bound(format!("{} lines in the alphabet; all {} sequences of <= {} lines x 3 contexts x 3 splice positions x 2 endings", alpha.len(), seqs::count(alpha.len(), n), n));
    seqs::par_seqs(&run, "C08 sequences", alpha.len(), n, 1, |_| false, |s, t| {
        let ins: Vec<&str> = s.iter().map(|i| alpha[*i].as_str()).collect();
        for ctx in &contexts {
            let c: Vec<&str> = ctx.iter().map(|x| x.as_str()).collect();
            let mid = c.len() / 2;
            let mut places = vec![0, mid, c.len()];
            places.dedup();
            for pos in places {
                let mut lines: Vec<&str> = c[..pos].to_vec();
                lines.extend(&ins);
                lines.extend(&c[pos..]);
                let text = join(&lines);
                check_text(t, &text);
                t.transitions += 1;
                if !text.is_empty() {
                    check_text(t, &text[..text.len() - 1]);
                    t.transitions += 1;
                }
                t.sample(run.seed, s.iter().fold(pos as u64, |a, x| a * 47 + *x as u64), || json!({"text": text}));
            }
        }
    });

    // the full entry: subsets of required variables, faults everywhere, reorderings
    let full = full_entry();
    let fl: Vec<&str> = full.iter().map(|s| s.as_str()).collect();
    let req = ms::required();
    let mut t = Tally::new();
    for mask in 0u32..(1 << req.len()) {
        let lines: Vec<&str> = fl
            .iter()
            .filter(|l| {
                let name = &l[..l.find('=').unwrap()];
                let i = ms::var_index(name).unwrap();
                match req.iter().position(|r| *r == i) {
                    Some(k) => mask >> k & 1 == 0,
                    None => true,
                }
            })
            .cloned()
            .collect();
        t.states += 1;
        t.transitions += 1;
        check_text(&mut t, &join(&lines));
    }
    for f in FAULT_LINES {
        for pos in 0..=fl.len() {
            let mut l = fl.clone();
            l.insert(pos, f);
            t.states += 1;
            t.transitions += 1;
            check_text(&mut t, &join(&l));
            if pos < fl.len() {
                let mut l = fl.clone();
                l[pos] = f;
                t.states += 1;
                t.transitions += 1;
                check_text(&mut t, &join(&l));
            }
        }
    }
    for i in 0..fl.len() {
        let mut l = fl.clone();
        if i + 1 < fl.len() {
            l.swap(i, i + 1);
            t.states += 1;
            check_text(&mut t, &join(&l));
        }
        let mut r = fl.clone();
        r.rotate_left(i);
        t.states += 1;
        t.transitions += 2;
        check_text(&mut t, &join(&r));
    }
    let mut rev = fl.clone();
    rev.reverse();
    t.states += 1;
    check_text(&mut t, &join(&rev));
    run.bound(format!("full {}-line entry: 2^{} required-subsets, {} fault lines x every position (insert and substitute), all adjacent transpositions, rotations, reversal", fl.len(), req.len(), FAULT_LINES.len()));
    // scale: many lines, long values, the whole range of integer magnitudes
    let mut count = 0;
    for n in [15usize, 16, 17, 31, 32, 33, 64, 100, 257, 1025] {
        let mut l: Vec<String> = full.clone();
        for k in 0..n {
            l.push(format!("DEPENDS=dep{}>={}", k % 7, k));
            if k % 3 == 0 {
                l.push(format!("DESCRIPTION=line {}", k));
            }
        }
        let refs: Vec<&str> = l.iter().map(|x| x.as_str()).collect();
        t.states += 1;
        count += 1;
        check_text(&mut t, &join(&refs));
        // and the same entry with one required variable removed at the very end
        let refs2: Vec<&str> = refs.iter().filter(|x| !x.starts_with("SIZE_PKG=")).cloned().collect();
        check_text(&mut t, &join(&refs2));
    }
    let long_value = "v".repeat(70_000);
    for var in ["COMMENT", "DESCRIPTION", "HOMEPAGE"] {
        let mut l: Vec<String> = required_entry(None);
        l.push(format!("{}={}", var, long_value));
        l.push(format!("{}=tail", var));
        let refs: Vec<&str> = l.iter().map(|x| x.as_str()).collect();
        t.states += 1;
        count += 1;
        check_text(&mut t, &join(&refs));
    }
    for e in 0..64u32 {
        for d in [-1i128, 0, 1] {
            for sign in [1i128, -1] {
                let v = sign * ((1i128 << e) + d);
                for var in ["FILE_SIZE", "SIZE_PKG"] {
                    let mut l: Vec<String> = required_entry(Some(21));
                    l.push(format!("{}={}", var, v));
                    l.push("SIZE_PKG=5".to_string());
                    let refs: Vec<&str> = l.iter().map(|x| x.as_str()).collect();
                    t.states += 1;
                    count += 1;
                    check_text(&mut t, &join(&refs));
                }
            }
        }
    }
    run.bound(format!("scale: {} texts with 15..1025 extra multi-line lines, 70 000-character values, and FILE_SIZE / SIZE_PKG over +-(2^e-1, 2^e, 2^e+1) for e = 0..63", count));
    run.merge(t);
    // character sweep: every ASCII and 64 special non-ASCII characters around names and values
    {
        let mut t = Tally::new();
        let chars = mc_core::chars::all();
        run.bound(format!("character sweep: {} characters in 6 line positions inside a complete entry", chars.len()));
        let req = required_entry(None);
        for c in chars {
            for line in [
                format!("{}COMMENT=x", c), format!("COMMENT{}=x", c), format!("COMMENT={}", c), format!("COMMENT=x{}", c), format!("{}", c), format!("DEPENDS={}{}", c, c),
            ] {
                let mut l: Vec<&str> = req.iter().map(|x| x.as_str()).collect();
                l.insert(3, &line);
                t.states += 1;
                check_text(&mut t, &join(&l));
            }
        }
        run.merge(t);
    }
    // typed-looking values and multi-byte straddles: every variable x every value another parser
    // of the library would canonicalise; over-long lines (good and malformed) whose every byte
    // offset falls inside a multi-byte character for some member
    {
        let mut t = Tally::new();
        let vals = mc_core::chars::TYPED_VALUES;
        let straddles = mc_core::chars::straddles(run.pick(1500, 70_000));
        run.bound(format!("typed-looking values: {} values x {} variables (line appended to the complete entry, and replacing the variable's own line); {} straddle strings as value, as name, as whole line", vals.len(), ms::VARS.len(), straddles.len()));
        let req = required_entry(None);
        for (name, _, _) in ms::VARS.iter() {
            for v in vals.iter() {
                let line = format!("{}={}", name, v);
                let mut l: Vec<&str> = req.iter().map(|x| x.as_str()).collect();
                l.push(&line);
                t.states += 1;
                check_text(&mut t, &join(&l));
                let l2: Vec<&str> = req.iter().map(|x| if x.starts_with(&format!("{}=", name)) { line.as_str() } else { x.as_str() }).collect();
                t.states += 1;
                check_text(&mut t, &join(&l2));
            }
        }
        for sv in &straddles {
            for line in [format!("COMMENT={}", sv), format!("{}=x", sv), sv.clone(), format!("{}COMMENT=x", sv), format!("DESCRIPTION={}", sv), format!("FILE_SIZE={}", sv), format!("=={}", sv)] {
                for at in [0usize, 5, req.len()] {
                    let mut l: Vec<&str> = req.iter().map(|x| x.as_str()).collect();
                    l.insert(at, &line);
                    t.states += 1;
                    check_text(&mut t, &join(&l));
                }
            }
        }
        run.merge(t);
    }
    // every variable name: all strings of <= N characters over A-Z and '_' as the name of a one-line
    // entry must be reported as an unknown variable unless it is one of the 23 (no name table,
    // hash or prefix scheme can accept a stranger within this length)
    {
        const AZ: &[u8] = b"ABCDEFGHIJKLMNOPQRSTUVWXYZ_";
        let n = run.pick(4, 6);
        run.bound(format!("every variable name: all {} strings of <= {} characters over A-Z and '_' as NAME=x", seqs::count(AZ.len(), n), n));
        // the name is the only possible fault: the line is appended to the complete minimal entry
        let base: String = required_entry(None).iter().map(|l| format!("{}\n", l)).collect();
        seqs::par_seqs(&run, "C08 names", AZ.len(), n, 2, |_| false, |q, t| {
            if q.is_empty() {
                return;
            }
            let mut text = String::with_capacity(base.len() + q.len() + 3);
            text.push_str(&base);
            for i in q {
                text.push(AZ[*i] as char);
            }
            text.push_str("=x");
            check_text(t, &text);
        });
    }
    run.finish();
}
