//! Glue between the pkgsrc crate's public API and the reference models.

use mc_core::model::plist as mplist;
use mc_core::model::summary::{Entry as MEntry, Val};
use pkgsrc::plist::{PlistEntry, PlistOption};
use pkgsrc::summary::Summary;
use std::os::unix::ffi::OsStrExt;

extern "C" {
    #[link_name = "mkfifo"]
    fn c_mkfifo(path: *const std::os::raw::c_char, mode: u32) -> i32;
}

/// A named pipe at `path` (mkfifo(3) of the C library the binary is linked against anyway;
/// no external command, so the pipe exists wherever the file system supports one).
pub fn mkfifo(path: &std::path::Path) -> std::io::Result<()> {
    let c = std::ffi::CString::new(path.as_os_str().as_bytes())
        .map_err(|e| std::io::Error::new(std::io::ErrorKind::InvalidInput, e))?;
    // SAFETY: `c` is a valid NUL-terminated string that outlives the call.
    if unsafe { c_mkfifo(c.as_ptr(), 0o644) } == 0 {
        Ok(())
    } else {
        Err(std::io::Error::last_os_error())
    }
}

/// The complete observable state of a `Summary`: the 23 getters, as a model
/// entry (variable index -> value).
pub fn summary_state(s: &Summary) -> MEntry {
    let mut e = MEntry::new();
    let mut put_s = |i: usize, v: Option<&str>| {
        if let Some(v) = v {
            e.insert(i, Val::S(v.to_string()));
        }
    };
    put_s(0, s.build_date());
    put_s(1, s.categories());
    put_s(2, s.comment());
    put_s(6, s.file_cksum());
    put_s(7, s.file_name());
    put_s(9, s.homepage());
    put_s(10, s.license());
    put_s(11, s.machine_arch());
    put_s(12, s.opsys());
    put_s(13, s.os_version());
    put_s(14, s.pkg_options());
    put_s(15, s.pkgname());
    put_s(16, s.pkgpath());
    put_s(17, s.pkgtools_version());
    put_s(18, s.prev_pkgpath());
    let mut put_a = |i: usize, v: Option<&[String]>| {
        if let Some(v) = v {
            e.insert(i, Val::A(v.to_vec()));
        }
    };
    put_a(3, s.conflicts());
    put_a(4, s.depends());
    put_a(5, s.description());
    put_a(19, s.provides());
    put_a(20, s.requires());
    put_a(22, s.supersedes());
    if let Some(n) = s.file_size() {
        e.insert(8, Val::I(n));
    }
    if let Some(n) = s.size_pkg() {
        e.insert(21, Val::I(n));
    }
    e
}

/// Apply "set variable i to v" through the real setter.
pub fn summary_set(s: &mut Summary, i: usize, v: &Val) {
    match (i, v) {
        (0, Val::S(x)) => s.set_build_date(x),
        (1, Val::S(x)) => s.set_categories(x),
        (2, Val::S(x)) => s.set_comment(x),
        (3, Val::A(x)) => s.set_conflicts(x),
        (4, Val::A(x)) => s.set_depends(x),
        (5, Val::A(x)) => s.set_description(x),
        (6, Val::S(x)) => s.set_file_cksum(x),
        (7, Val::S(x)) => s.set_file_name(x),
        (8, Val::I(x)) => s.set_file_size(*x),
        (9, Val::S(x)) => s.set_homepage(x),
        (10, Val::S(x)) => s.set_license(x),
        (11, Val::S(x)) => s.set_machine_arch(x),
        (12, Val::S(x)) => s.set_opsys(x),
        (13, Val::S(x)) => s.set_os_version(x),
        (14, Val::S(x)) => s.set_pkg_options(x),
        (15, Val::S(x)) => s.set_pkgname(x),
        (16, Val::S(x)) => s.set_pkgpath(x),
        (17, Val::S(x)) => s.set_pkgtools_version(x),
        (18, Val::S(x)) => s.set_prev_pkgpath(x),
        (19, Val::A(x)) => s.set_provides(x),
        (20, Val::A(x)) => s.set_requires(x),
        (21, Val::I(x)) => s.set_size_pkg(*x),
        (22, Val::A(x)) => s.set_supersedes(x),
        _ => panic!("harness: bad setter call {} {:?}", i, v),
    }
}

/// Apply "push x onto list variable i" through the real pusher.
pub fn summary_push(s: &mut Summary, i: usize, x: &str) {
    match i {
        3 => s.push_conflicts(x),
        4 => s.push_depends(x),
        5 => s.push_description(x),
        19 => s.push_provides(x),
        20 => s.push_requires(x),
        22 => s.push_supersedes(x),
        _ => panic!("harness: bad pusher call {}", i),
    }
}

pub fn plist_entry_model(e: &PlistEntry) -> mplist::Entry {
    use mplist::Entry as M;
    let b = |o: &std::ffi::OsString| o.as_bytes().to_vec();
    match e {
        PlistEntry::File(f) => M::File(b(f)),
        PlistEntry::Cwd(f) => M::Cwd(b(f)),
        PlistEntry::Exec(f) => M::Exec(b(f)),
        PlistEntry::UnExec(f) => M::UnExec(b(f)),
        PlistEntry::Mode(m) => M::Mode(m.clone()),
        PlistEntry::PkgOpt(PlistOption::Preserve) => M::OptPreserve,
        PlistEntry::Owner(m) => M::Owner(m.clone()),
        PlistEntry::Group(m) => M::Group(m.clone()),
        PlistEntry::Comment(c) => M::Comment(c.as_ref().map(b)),
        PlistEntry::Ignore => M::Ignore,
        PlistEntry::Name(s) => M::Name(s.clone()),
        PlistEntry::PkgDir(f) => M::PkgDir(b(f)),
        PlistEntry::DirRm(f) => M::DirRm(b(f)),
        PlistEntry::Display(f) => M::Display(b(f)),
        PlistEntry::PkgDep(s) => M::PkgDep(s.clone()),
        PlistEntry::BldDep(s) => M::BldDep(s.clone()),
        PlistEntry::PkgCfl(s) => M::PkgCfl(s.clone()),
    }
}
