//! Deterministic work partitioning over worker threads.  Threads only split
//! the input space; every result is merged into one tally whose content does
//! not depend on scheduling (counts are sums, violations are kept smallest
//! first).

use crate::run::{Run, Tally};
use std::sync::atomic::{AtomicUsize, Ordering};

pub fn workers() -> usize {
    std::env::var("VERIF_THREADS")
        .ok()
        .and_then(|s| s.parse().ok())
        .unwrap_or_else(|| {
            std::thread::available_parallelism()
                .map(|n| n.get())
                .unwrap_or(4)
        })
        .max(1)
}

/// Run `f` on every item.  Stops handing out items once the run's wall-clock
/// budget is exhausted (recorded as a cap, so the run is not called
/// exhaustive).  Returns the number of items completed.
pub fn par_items<T: Sync, F>(run: &Run, what: &str, items: &[T], f: F) -> usize
where
    F: Fn(usize, &T, &mut Tally) + Sync,
{
    let next = AtomicUsize::new(0);
    let done = AtomicUsize::new(0);
    let n = workers().min(items.len().max(1));
    std::thread::scope(|s| {
        for _ in 0..n {
            s.spawn(|| {
                let mut tally = Tally::new();
                loop {
                    if run.expired() {
                        break;
                    }
                    let i = next.fetch_add(1, Ordering::SeqCst);
                    if i >= items.len() {
                        break;
                    }
                    f(i, &items[i], &mut tally);
                    done.fetch_add(1, Ordering::SeqCst);
                }
                run.merge(tally);
            });
        }
    });
    let d = done.load(Ordering::SeqCst);
    run.trace(&format!("done: {} ({} of {} items)", what, d, items.len()));
    if d < items.len() {
        run.cap_hit(format!(
            "{}: wall-clock budget reached after {} of {} work items",
            what,
            d,
            items.len()
        ));
    }
    d
}
