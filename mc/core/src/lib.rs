pub mod chars;
pub mod model;
pub mod par;
pub mod run;
pub mod seqs;

pub use run::{bytes_from_json, bytes_json, bytes_json_rle, guard, hex, unhex, Run, Tally, Tier, Violation};
