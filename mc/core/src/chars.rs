//! Character pools for exhaustive single-character sweeps: every ASCII
//! character, and a fixed list of non-ASCII characters chosen one or more per
//! Unicode behaviour that string-processing code tends to get wrong.

/// All ASCII characters except NUL, LF and CR (callers that can take them add them).
pub fn ascii() -> Vec<char> {
    (1u8..=127).filter(|b| *b != b'\n' && *b != b'\r').map(|b| b as char).collect()
}

/// Non-ASCII characters: case mappings that produce ASCII letters, digits of
/// other scripts and other numeric characters, every Unicode white-space
/// character, combining marks, format characters, characters of 2, 3 and 4
/// UTF-8 bytes, and characters whose UTF-8 encoding contains the bytes 0x85 /
/// 0xA0.
pub const SPECIALS: [char; 75] = [
    // the edges of every UTF-8 length and lead-byte class (C2 80 .. F4 8F BF BF)
    '\u{7ff}', '\u{800}', '\u{d7ff}', '\u{e000}', '\u{ffff}', '\u{10000}', '\u{3ffff}', '\u{40000}', '\u{fffff}', '\u{100000}', '\u{10ffff}',
    // case mappings into / out of ASCII
    '\u{212a}', '\u{130}', '\u{131}', '\u{17f}', '\u{df}', '\u{1c5}', '\u{fb01}', '\u{3a3}',
    // decimal digits of other scripts, other numerics
    '\u{660}', '\u{663}', '\u{6f1}', '\u{966}', '\u{ff11}', '\u{1d7d9}', '\u{b2}', '\u{bd}', '\u{2460}', '\u{2167}', '\u{3007}',
    // white space (White_Space property) and look-alikes
    '\u{85}', '\u{a0}', '\u{1680}', '\u{2000}', '\u{2003}', '\u{2009}', '\u{200a}', '\u{2028}', '\u{2029}', '\u{202f}', '\u{205f}', '\u{3000}',
    '\u{200b}', '\u{feff}', '\u{180e}',
    // combining marks, format and bidi controls, replacement character
    '\u{301}', '\u{308}', '\u{200d}', '\u{200e}', '\u{202e}', '\u{ad}', '\u{fffd}',
    // letters of several scripts, 2- / 3- / 4-byte encodings
    '\u{e9}', '\u{e0}', '\u{c5}', '\u{f1}', '\u{414}', '\u{3b1}', '\u{5d0}', '\u{627}', '\u{65e5}', '\u{672c}', '\u{ac00}', '\u{1f600}', '\u{1f4a9}', '\u{10348}',
    // C1 controls and Latin-1 punctuation
    '\u{80}', '\u{9f}', '\u{a1}', '\u{b7}', '\u{d7}', '\u{f7}', '\u{ff}', '\u{2010}', '\u{2212}',
];

/// ASCII (without NUL, LF, CR) followed by the specials.
pub fn all() -> Vec<char> {
    let mut v = ascii();
    v.extend(SPECIALS.iter());
    v
}

/// Texts that look like package patterns but do not compile as one (unbalanced or
/// reversed braces, operators in a wrong order or number, unterminated bracket
/// sets, stray backslashes), plus a few that do.  A store that keeps pattern-like
/// values verbatim (a packing list's dependency commands) is tried with each.
pub const BROKEN_PATTERNS: [&str; 30] = [
    "foo-{1,2", "foo-1,2}", "}a{", "{", "}", "foo-{", "a{b,c", "a{b{c}", "{a,b}}", "foo-{1,{2,3}",
    "foo>=1>2", "foo<1>2", "foo<1<2", "foo>=1<2<3", "foo>", "foo>=", "<1", ">=<", "foo=>1", "foo>=1<=",
    "foo-[0-9*", "foo-[", "foo-[]", "foo-[!", "foo-***", "foo\\", "\\", "foo-[0-9]*", "foo-{1,2}", "foo>=1<2",
];

/// Values that some *other* parser of the library would rewrite, reject or
/// canonicalise (package paths, digest names, package names and patterns,
/// dependency strings, numbers, booleans, list/command syntax of the other file
/// formats, URL-ish and shell-ish text).  A store that must keep values verbatim
/// is tried with each of them.
pub const TYPED_VALUES: [&str; 110] = [
    // "<algorithm> <digest>" with a digest of exactly the algorithm's length (a sibling parser could "canonicalise" these)
    "sha1 da39a3ee5e6b4b0d3255bfef95601890afd80709", "SHA1 DA39A3EE5E6B4B0D3255BFEF95601890AFD80709", "md5 d41d8cd98f00b204e9800998ecf8427e", "rmd160 9c1185a5c5e9fc54612808977ee8f548b2258d31",
    "sha256 e3b0c44298fc1c149afbf4c8996fb92427ae41e4649b934ca495991b7852b855", "blake2s 69217a3079908094e11121d042354a7c1f55b6482ca1a51e1b250dfd1ed0eef9",
    "Sha1 (f.tgz) = da39a3ee5e6b4b0d3255bfef95601890afd80709", "sha1  da39a3ee5e6b4b0d3255bfef95601890afd80709",
    // one item named twice (a store that "tidies" lists would drop the repeat)
    "a b a", "x x", "inet6 ssl inet6", "a,b,a", "-x -x", "a  a",
    // package paths
    "../../cat/pkg", "../../cat/pkg/", "../..//cat/pkg", "../../cat//pkg", "cat/pkg", "cat/pkg/", "./cat/pkg", "/cat/pkg",
    "../../cat/pkg/../x", "../cat/pkg", "../../../cat/pkg", "cat", "..", "../..", "../../cat/pkg ", "../../Cat/Pkg",
    // digest names and checksum-looking values
    "sha1 da39a3ee", "SHA1 da39a3ee", "Sha256 00", "blake2s 00", "BLAKE2S 00", "BLAKE2s 00", "md5 x", "rmd160 0", "sha512 0",
    "SHA1", "sha1", "SHA1  two", "SHA1 (file) = 00", "Size (f) = 3 bytes",
    // package names, patterns, dependencies
    "p-1.0", "P-1.0", "p-1.0nb0", "p-1.0nb01", "p-01.0", "p-1.0NB1", "p-1.0RC1", "p>=1", "p>=1<2", "{a,b}-[0-9]*", "p-[0-9]*:../../cat/pkg",
    "p-[0-9]*:cat/pkg", "p-[0-9]*", "p-*", "{a,b}", "p-1.0{,nb1}",
    // numbers
    "007", "+5", "-0", "0x10", "1e3", "1_000", " 5", "5 ", "\u{663}", "\u{ff19}", "1.0", "9223372036854775808", "-9223372036854775809", "00",
    // booleans
    "true", "YES", "yes", "no", "0", "1",
    // syntax of the other formats, comments, separators
    "@comment x", "@cwd /", "$NetBSD$", "$NetBSD: x $", "#x", "a=b=c", "=x", "x=", "a\\", "\\n", "a\tb", "\u{feff}x", "x\u{feff}", "a  b", "a ,b", "a,b",
    "A", "a/", "PKGNAME=x", "COMMENT=", 
    // URL-ish and shell-ish
    "http://x/y/../z", "HTTP://X", "x%20y", "~", "${V}", "$(V)", "'q'", "\"q\"", "a;b", "a|b",
];

/// Strings in which every byte offset from `char_len` up to `bytes` falls inside a
/// multi-byte character for at least one member: `k` ASCII bytes followed by
/// repetitions of one 2-, 3- or 4-byte character, for every `k` below the
/// character's length.
pub fn straddles(bytes: usize) -> Vec<String> {
    let mut out = vec![];
    for ch in ['\u{e9}', '\u{65e5}', '\u{1f600}'] {
        for k in 0..ch.len_utf8() {
            let mut s = "a".repeat(k);
            while s.len() < bytes {
                s.push(ch);
            }
            out.push(s);
        }
    }
    out
}

/// Pairs of short words that collide under the 32-bit hash functions people write by hand
/// (found by birthday search; each of these hashes chains its state, so the pair still collides
/// with any common prefix-free suffix appended: "<a>-1.0" and "<b>-1.0").  A table, cache or
/// "seen" set keyed by such a hash instead of the string confuses the two.
pub const HASH_COLLISIONS: [(&str, &str, &str); 36] = [
    // pairs sharing their first two characters (a fast-reject on the first characters lets both through)
    ("lihzfdwiri", "lidvmsdynn", "FNV-1a 32"), ("liquppgwwi", "livthbnkuj", "FNV-1a 32"),
    ("liatbqhjdc", "licxgqaozf", "FNV-1 32"), ("lirxdirdhl", "lilkoictlk", "FNV-1 32"),
    ("lieodevtuy", "lixzuovpxa", "djb2"), ("lioewfllbr", "liecdrkxnn", "djb2"),
    ("litanobzpv", "liabugqowr", "djb2 xor"), ("lidznqtzmk", "lidqgcrkbc", "djb2 xor"),
    ("lidpumuvht", "liusiqhwxt", "sdbm"), ("lirhnddrgb", "livuxpghzw", "sdbm"),
    ("liaqybuaiy", "ligjzzorcr", "31-multiplier"), ("lictzsoief", "liwydiqfqz", "31-multiplier"),
    ("litfklvryk", "livlhcyquw", "CRC-32"), ("licrndmfqo", "likjtucfmb", "CRC-32"),
    ("liqmcxglvh", "liddjzzkwp", "FNV-1a 64, low 32 bits"), ("lieoqzqezz", "lirofkwmud", "FNV-1a 64, low 32 bits"),
    ("costarring", "liquid", "FNV-1a 32"), ("declinate", "macallums", "FNV-1a 32"), ("altarage", "zinke", "FNV-1a 32"), ("altarages", "zinkes", "FNV-1a 32"),
    ("pfagsbywu", "ducxgdlmv", "FNV-1a 32"), ("sowegqmkx", "fvvbonkdx", "FNV-1a 32"),
    ("zvglittwu", "ufqvxtkdu", "FNV-1 32"), ("bkxizmwmu", "zmphdmfjr", "FNV-1 32"),
    ("chwusyvpa", "mghhyforf", "djb2"), ("amvrvlpms", "pgrijndgs", "djb2"),
    ("zfdfanjjs", "gvelryqee", "djb2 xor"), ("tekafktqi", "xdyfrphbq", "djb2 xor"),
    ("tjhljxtfs", "dmgdlixpt", "sdbm"), ("wlvvnafzm", "vkdjosrom", "sdbm"),
    ("whgsuhnzy", "ptculfhch", "31-multiplier"), ("vxrvegdmt", "xdwjxboro", "31-multiplier"),
    ("dhnpgfdsw", "qmqphzuho", "CRC-32"), ("oqummsbea", "slomyiemm", "CRC-32"),
    ("aufgy", "dctcd", "FNV-1a 64, low 32 bits"), ("aufgx", "dctce", "FNV-1a 64, low 32 bits"),
];
