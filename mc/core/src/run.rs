//! Run context shared by every driver: tier/seed handling, tallies, known
//! findings, evidence and replay files, exit codes.
//!
//! Exit codes: 0 = property held on everything explored, 1 = violation
//! (with a `VIOLATION property=<id> replay=<path>` line), 2 = machinery fault
//! (never a verdict).

use serde_json::{json, Value};
use std::collections::BTreeMap;
use std::path::PathBuf;
use std::sync::Mutex;
use std::time::{Duration, Instant};

#[derive(Clone, Copy, PartialEq, Eq, Debug)]
pub enum Tier {
    Quick,
    Thorough,
}

impl Tier {
    pub fn name(self) -> &'static str {
        match self {
            Tier::Quick => "quick",
            Tier::Thorough => "thorough",
        }
    }
    pub fn is_thorough(self) -> bool {
        self == Tier::Thorough
    }
}

#[derive(Clone, Debug)]
pub struct Violation {
    /// which check of the driver produced it (used to dispatch the replay)
    pub kind: String,
    /// the concrete case, self-contained (bytes as hex where not UTF-8)
    pub case: Value,
    pub expected: Value,
    pub observed: Value,
    pub note: String,
}

impl Violation {
    pub fn new(kind: &str, case: Value, expected: Value, observed: Value, note: &str) -> Violation {
        Violation {
            kind: kind.to_string(),
            case,
            expected,
            observed,
            note: note.to_string(),
        }
    }
    fn sort_key(&self) -> (String, usize, String) {
        let c = self.case.to_string();
        (self.kind.clone(), c.len(), c)
    }
}

const MAX_KEPT_VIOLATIONS: usize = 24;
const MAX_SAMPLES: usize = 12;

/// Per-worker accumulator, merged into the run at the end of a work item.
#[derive(Default)]
pub struct Tally {
    pub states: u64,
    pub transitions: u64,
    pub evals: u64,
    pub nontrivial: u64,
    pub validated: u64,
    pub outcomes: BTreeMap<String, u64>,
    pub samples: Vec<Value>,
    pub violations: Vec<Violation>,
    pub viol_count: u64,
    pub known: BTreeMap<String, (u64, Option<Value>)>,
}

impl Tally {
    pub fn new() -> Tally {
        Tally::default()
    }
    #[inline]
    pub fn outcome(&mut self, k: &str) {
        self.outcome_n(k, 1);
    }
    pub fn outcome_n(&mut self, k: &str, n: u64) {
        if n == 0 {
            return;
        }
        if let Some(v) = self.outcomes.get_mut(k) {
            *v += n;
        } else {
            self.outcomes.insert(k.to_string(), n);
        }
    }
    pub fn violation(&mut self, v: Violation) {
        self.viol_count += 1;
        if self.violations.len() < MAX_KEPT_VIOLATIONS {
            self.violations.push(v);
        } else {
            // keep the smallest ones
            let k = v.sort_key();
            if let Some((i, _)) = self
                .violations
                .iter()
                .enumerate()
                .max_by_key(|(_, x)| x.sort_key())
            {
                if self.violations[i].sort_key() > k {
                    self.violations[i] = v;
                }
            }
        }
    }
    pub fn known(&mut self, id: &str, witness: impl FnOnce() -> Value) {
        let e = self.known.entry(id.to_string()).or_insert((0, None));
        e.0 += 1;
        // keep the smallest witness so that the report does not depend on
        // which worker got there first (bounded work: only while cheap)
        if e.1.is_none() || e.0 <= 4096 {
            let w = witness();
            if smaller(&w, &e.1) {
                e.1 = Some(w);
            }
        }
    }
    /// Keep a few written-out cases.  `pick` is any cheap per-case number;
    /// the seed only selects which of the explored cases are printed.
    #[inline]
    pub fn sample(&mut self, seed: u64, pick: u64, f: impl FnOnce() -> Value) {
        if self.samples.is_empty()
            || (self.samples.len() < 4 && (pick.wrapping_add(seed)) % 9973 == 0)
        {
            self.samples.push(f());
        }
    }
    pub fn force_sample(&mut self, v: Value) {
        if self.samples.len() < MAX_SAMPLES {
            self.samples.push(v);
        }
    }
    pub fn merge(&mut self, o: Tally) {
        self.states += o.states;
        self.transitions += o.transitions;
        self.evals += o.evals;
        self.nontrivial += o.nontrivial;
        self.validated += o.validated;
        for (k, n) in o.outcomes {
            *self.outcomes.entry(k).or_insert(0) += n;
        }
        for s in o.samples {
            if self.samples.len() < MAX_SAMPLES {
                self.samples.push(s);
            }
        }
        self.viol_count += o.viol_count.saturating_sub(o.violations.len() as u64);
        for v in o.violations {
            self.violation(v);
        }
        for (k, (n, w)) in o.known {
            let e = self.known.entry(k).or_insert((0, None));
            e.0 += n;
            if let Some(w) = w {
                if smaller(&w, &e.1) {
                    e.1 = Some(w);
                }
            }
        }
    }
}

fn smaller(w: &Value, cur: &Option<Value>) -> bool {
    match cur {
        None => true,
        Some(c) => {
            let (a, b) = (w.to_string(), c.to_string());
            (a.len(), a) < (b.len(), b)
        }
    }
}

#[derive(Clone, Debug)]
pub struct Finding {
    pub property: String,
    pub id: String,
    pub status: String,
    pub what: String,
}

pub enum Mode {
    Explore,
    Replay(Value),
}

pub struct Run {
    pub prop: &'static str,
    pub tier: Tier,
    pub seed: u64,
    pub mode: Mode,
    start: Instant,
    budget: Duration,
    total: Mutex<Tally>,
    bounds: Mutex<Vec<String>>,
    caps: Mutex<Vec<String>>,
    assumptions: Mutex<Vec<String>>,
    rule: Mutex<String>,
    extra: Mutex<BTreeMap<String, Value>>,
    findings: Vec<Finding>,
    verif_dir: PathBuf,
    out_dir: PathBuf,
}

pub fn machinery_fault(msg: &str) -> ! {
    eprintln!("ENGINE-FAULT: {}", msg);
    println!("ENGINE-FAULT: {}", msg);
    std::process::exit(2);
}

impl Run {
    /// Parse the command line: `<bin> [--tier quick|thorough] [--replay file]`.
    pub fn from_args(prop: &'static str) -> Run {
        let args: Vec<String> = std::env::args().collect();
        let mut tier = match std::env::var("VERIF_TIER").ok().as_deref() {
            Some("thorough") => Tier::Thorough,
            _ => Tier::Quick,
        };
        let mut replay: Option<String> = None;
        let mut i = 1;
        while i < args.len() {
            match args[i].as_str() {
                "--tier" => {
                    i += 1;
                    tier = match args.get(i).map(|s| s.as_str()) {
                        Some("quick") => Tier::Quick,
                        Some("thorough") => Tier::Thorough,
                        other => machinery_fault(&format!("bad tier {:?}", other)),
                    };
                }
                "--replay" => {
                    i += 1;
                    replay = args.get(i).cloned();
                    if replay.is_none() {
                        machinery_fault("--replay needs a file");
                    }
                }
                other => machinery_fault(&format!("unknown argument {}", other)),
            }
            i += 1;
        }
        let seed = std::env::var("VERIF_SEED")
            .ok()
            .and_then(|s| s.trim().parse::<i64>().ok())
            .map(|v| v as u64)
            .unwrap_or(0);
        let verif_dir = PathBuf::from(
            std::env::var("VERIF_DIR").unwrap_or_else(|_| "/verif".to_string()),
        );
        let out_dir = PathBuf::from(
            std::env::var("VERIF_OUT")
                .unwrap_or_else(|_| verif_dir.to_string_lossy().into_owned()),
        );
        let budget_s: u64 = std::env::var("VERIF_BUDGET_S")
            .ok()
            .and_then(|s| s.parse().ok())
            .unwrap_or(match tier {
                Tier::Quick => 50,
                Tier::Thorough => 1500,
            });
        let mode = match replay {
            None => Mode::Explore,
            Some(p) => {
                let txt = std::fs::read_to_string(&p)
                    .unwrap_or_else(|e| machinery_fault(&format!("cannot read {}: {}", p, e)));
                let v: Value = serde_json::from_str(&txt)
                    .unwrap_or_else(|e| machinery_fault(&format!("bad replay file {}: {}", p, e)));
                if v["property"].as_str() != Some(prop) {
                    machinery_fault(&format!(
                        "replay file is for {:?}, this is {}",
                        v["property"], prop
                    ));
                }
                Mode::Replay(v)
            }
        };
        let findings = load_findings(&verif_dir, prop);
        // subject panics are caught and reported as violations; keep stderr quiet
        std::panic::set_hook(Box::new(|_| {}));
        Run {
            prop,
            tier,
            seed,
            mode,
            start: Instant::now(),
            budget: Duration::from_secs(budget_s),
            total: Mutex::new(Tally::new()),
            bounds: Mutex::new(vec![]),
            caps: Mutex::new(vec![]),
            assumptions: Mutex::new(vec![]),
            rule: Mutex::new(String::new()),
            extra: Mutex::new(BTreeMap::new()),
            findings,
            verif_dir,
            out_dir,
        }
    }

    pub fn thorough(&self) -> bool {
        self.tier.is_thorough()
    }
    pub fn pick<T>(&self, quick: T, thorough: T) -> T {
        if self.thorough() {
            thorough
        } else {
            quick
        }
    }
    pub fn elapsed(&self) -> Duration {
        self.start.elapsed()
    }
    pub fn expired(&self) -> bool {
        self.start.elapsed() > self.budget
    }
    pub fn verif_dir(&self) -> &PathBuf {
        &self.verif_dir
    }
    /// Scratch directory for file-system configurations; unique per process,
    /// removed by `finish`.
    pub fn scratch_dir(&self) -> PathBuf {
        let base = std::env::var("VERIF_SCRATCH")
            .map(PathBuf::from)
            .unwrap_or_else(|_| self.verif_dir.join("mc").join("target").join("scratch"));
        // directories left behind by runs that were killed (their pid is gone)
        static SWEPT: std::sync::atomic::AtomicBool = std::sync::atomic::AtomicBool::new(false);
        if !SWEPT.swap(true, std::sync::atomic::Ordering::SeqCst) {
            if let Ok(rd) = std::fs::read_dir(&base) {
                for e in rd.flatten() {
                    let name = e.file_name().to_string_lossy().into_owned();
                    if let Some(pid) = name.rsplit('-').next().and_then(|p| p.parse::<u32>().ok()) {
                        if name.starts_with('C') && !std::path::Path::new(&format!("/proc/{}", pid)).exists() {
                            let _ = std::fs::remove_dir_all(e.path());
                        }
                    }
                }
            }
        }
        let d = base.join(format!("{}-{}", self.prop, std::process::id()));
        std::fs::create_dir_all(&d)
            .unwrap_or_else(|e| machinery_fault(&format!("cannot create scratch {:?}: {}", d, e)));
        d
    }
    pub fn merge(&self, t: Tally) {
        self.total.lock().unwrap().merge(t);
    }
    /// With VERIF_TRACE set: where the time goes (elapsed seconds when a family is announced or done).
    pub fn trace(&self, s: &str) {
        if std::env::var_os("VERIF_TRACE").is_some() {
            eprintln!("[{:8.2}s] {}", self.start.elapsed().as_secs_f64(), s.chars().take(100).collect::<String>());
        }
    }
    pub fn bound(&self, s: impl Into<String>) {
        let s = s.into();
        self.trace(&s);
        self.bounds.lock().unwrap().push(s);
    }
    pub fn cap_hit(&self, s: impl Into<String>) {
        let s = s.into();
        let mut c = self.caps.lock().unwrap();
        if !c.contains(&s) {
            c.push(s);
        }
    }
    pub fn assume(&self, s: impl Into<String>) {
        self.assumptions.lock().unwrap().push(s.into());
    }
    pub fn rule(&self, s: impl Into<String>) {
        *self.rule.lock().unwrap() = s.into();
    }
    pub fn extra(&self, k: &str, v: Value) {
        self.extra.lock().unwrap().insert(k.to_string(), v);
    }
    /// Is `id` listed as an *open* known finding for this property?
    pub fn finding_open(&self, id: &str) -> bool {
        self.findings
            .iter()
            .any(|f| f.id == id && f.status == "open")
    }
    pub fn finding_what(&self, id: &str) -> String {
        self.findings
            .iter()
            .find(|f| f.id == id)
            .map(|f| f.what.clone())
            .unwrap_or_default()
    }
    pub fn fault(&self, msg: &str) -> ! {
        machinery_fault(msg)
    }

    /// The replay case, if this invocation is a replay.
    pub fn replay_case(&self) -> Option<&Value> {
        match &self.mode {
            Mode::Replay(v) => Some(v),
            Mode::Explore => None,
        }
    }

    /// Finish a replay invocation: `again` is the violation reproduced by
    /// re-running the recorded case (None = it no longer fails).
    pub fn finish_replay(&self, first: Option<Violation>, second: Option<Violation>) -> ! {
        let a = first.as_ref().map(|v| (v.observed.clone(), v.expected.clone()));
        let b = second.as_ref().map(|v| (v.observed.clone(), v.expected.clone()));
        if a != b {
            // both executions run in this process: a fault that depends on what an earlier call left
            // behind (a cache, a thread-local) legitimately shows in one of them only
            if let Some(v) = first.as_ref().or(second.as_ref()) {
                println!(
                    "REPLAY property={} kind={} reproduces in one of two executions in the same process (history-dependent): expected {} observed {} ({})",
                    self.prop, v.kind, v.expected, v.observed, v.note
                );
                std::process::exit(1);
            }
            machinery_fault("replay diverged between two executions of the same case");
        }
        match first {
            Some(v) => {
                println!(
                    "REPLAY property={} kind={} reproduces: expected {} observed {} ({})",
                    self.prop, v.kind, v.expected, v.observed, v.note
                );
                std::process::exit(1);
            }
            None => {
                println!("REPLAY property={} does not reproduce on this tree", self.prop);
                std::process::exit(0);
            }
        }
    }

    /// Write evidence, replay files and the verdict lines; exit.
    pub fn finish(&self) -> ! {
        // the watchdog of C17 and the main thread may both get here: the first one writes the verdict
        static FINISHING: std::sync::atomic::AtomicBool = std::sync::atomic::AtomicBool::new(false);
        if FINISHING.swap(true, std::sync::atomic::Ordering::SeqCst) {
            loop {
                std::thread::sleep(std::time::Duration::from_secs(3600));
            }
        }
        let wall = self.start.elapsed().as_secs_f64();
        let mut total = std::mem::take(&mut *self.total.lock().unwrap());
        let caps = self.caps.lock().unwrap().clone();
        let exhaustive = caps.is_empty();
        total.violations.sort_by_key(|v| v.sort_key());
        total.violations.dedup_by(|a, b| a.kind == b.kind && a.case == b.case);

        // vacuity guards: a run that explored nothing, or saw a single outcome,
        // is a machinery fault, not a pass
        if total.viol_count == 0 {
            if total.evals == 0 || total.states == 0 {
                machinery_fault("nothing was explored");
            }
            if total.outcomes.len() < 2 {
                machinery_fault(&format!(
                    "degenerate outcome histogram {:?}: nothing collided",
                    total.outcomes
                ));
            }
        }

        let evid_dir = self.out_dir.join("evidence");
        let replay_dir = self.out_dir.join("replays");
        let _ = std::fs::create_dir_all(&evid_dir);

        // replay files of an earlier run of this property do not describe this run
        if let Ok(rd) = std::fs::read_dir(&replay_dir) {
            let prefix = format!("{}-", self.prop);
            for e in rd.flatten() {
                if e.file_name().to_string_lossy().starts_with(&prefix) {
                    let _ = std::fs::remove_file(e.path());
                }
            }
        }
        let mut replay_paths = vec![];
        if total.viol_count > 0 {
            let _ = std::fs::create_dir_all(&replay_dir);
            for (i, v) in total.violations.iter().enumerate().take(8) {
                let p = replay_dir.join(format!("{}-{}.json", self.prop, i));
                let doc = json!({
                    "property": self.prop,
                    "kind": v.kind,
                    "case": v.case,
                    "expected": v.expected,
                    "observed": v.observed,
                    "note": v.note,
                    "tier": self.tier.name(),
                });
                if let Err(e) = std::fs::write(&p, serde_json::to_string_pretty(&doc).unwrap()) {
                    machinery_fault(&format!("cannot write replay {:?}: {}", p, e));
                }
                replay_paths.push(p);
            }
        }

        let known_json: Vec<Value> = total
            .known
            .iter()
            .map(|(id, (n, w))| json!({"id": id, "cases": n, "first_witness": w}))
            .collect();

        let mut samples = total.samples.clone();
        if samples.is_empty() {
            samples.push(json!("(no sample recorded)"));
        }
        let mut coverage = json!({
            "states": total.states,
            "transitions": total.transitions,
            "traces_validated_against_impl": total.validated,
            "evaluations": total.evals,
            "distinct_nontrivial": total.nontrivial,
            "rule": *self.rule.lock().unwrap(),
            "samples": samples,
            "exhaustive": exhaustive,
            "bounds": *self.bounds.lock().unwrap(),
            "caps_hit": caps,
            "outcomes": total.outcomes,
            "known_findings": known_json,
        });
        for (k, v) in self.extra.lock().unwrap().iter() {
            coverage[k] = v.clone();
        }
        let evidence = json!({
            "property_id": self.prop,
            "tier": self.tier.name(),
            "seed": self.seed as i64,
            "level": "model_checking",
            "coverage": coverage,
            "assumptions": *self.assumptions.lock().unwrap(),
            "wall_s": wall,
            "violations": total.viol_count,
        });
        let ep = evid_dir.join(format!("{}.json", self.prop));
        if let Err(e) = std::fs::write(&ep, serde_json::to_string_pretty(&evidence).unwrap() + "\n") {
            machinery_fault(&format!("cannot write evidence {:?}: {}", ep, e));
        }

        println!(
            "{} {}: states={} transitions={} evaluations={} nontrivial={} validated={} outcomes={} exhaustive={} wall={:.1}s",
            self.prop,
            self.tier.name(),
            total.states,
            total.transitions,
            total.evals,
            total.nontrivial,
            total.validated,
            total.outcomes.len(),
            exhaustive,
            wall
        );
        for c in &caps {
            println!("CAP-HIT: {}", c);
        }
        for (id, (n, w)) in &total.known {
            let what = self
                .findings
                .iter()
                .find(|f| &f.id == id)
                .map(|f| f.what.clone())
                .unwrap_or_default();
            println!(
                "KNOWN-FINDING: property={} {} [{}] ({} cases, first: {})",
                self.prop,
                what,
                id,
                n,
                w.clone().unwrap_or(Value::Null)
            );
        }
        // remove the scratch directory of this process, if any
        let base = std::env::var("VERIF_SCRATCH")
            .map(PathBuf::from)
            .unwrap_or_else(|_| self.verif_dir.join("mc").join("target").join("scratch"));
        let _ = std::fs::remove_dir_all(base.join(format!("{}-{}", self.prop, std::process::id())));

        if total.viol_count > 0 {
            for (v, p) in total.violations.iter().zip(replay_paths.iter()).take(3) {
                println!(
                    "  violation kind={} case={} expected={} observed={} {}",
                    v.kind,
                    clip(&v.case.to_string(), 400),
                    clip(&v.expected.to_string(), 300),
                    clip(&v.observed.to_string(), 300),
                    v.note
                );
                let _ = p;
            }
            println!("  ({} violating cases in total)", total.viol_count);
            println!(
                "VIOLATION property={} replay={}",
                self.prop,
                replay_paths[0].display()
            );
            std::process::exit(1);
        }
        std::process::exit(0);
    }
}

fn clip(s: &str, n: usize) -> String {
    if s.chars().count() <= n {
        s.to_string()
    } else {
        let head: String = s.chars().take(n).collect();
        format!("{}... ({} chars, full text in the replay file)", head, s.chars().count())
    }
}

fn load_findings(verif_dir: &PathBuf, prop: &str) -> Vec<Finding> {
    let p = verif_dir.join("known-findings.json");
    let txt = match std::fs::read_to_string(&p) {
        Ok(t) => t,
        Err(_) => return vec![],
    };
    let v: Value = match serde_json::from_str(&txt) {
        Ok(v) => v,
        Err(e) => machinery_fault(&format!("known-findings.json is not valid JSON: {}", e)),
    };
    let mut out = vec![];
    if let Some(arr) = v["findings"].as_array() {
        for f in arr {
            let props: Vec<String> = match &f["properties"] {
                Value::Array(a) => a
                    .iter()
                    .filter_map(|x| x.as_str().map(|s| s.to_string()))
                    .collect(),
                _ => vec![],
            };
            if !props.iter().any(|p| p == prop) {
                continue;
            }
            out.push(Finding {
                property: prop.to_string(),
                id: f["id"].as_str().unwrap_or("").to_string(),
                status: f["status"].as_str().unwrap_or("").to_string(),
                what: f["what"].as_str().unwrap_or("").to_string(),
            });
        }
    }
    out
}

/// Hex helpers for replay files.
pub fn hex(b: &[u8]) -> String {
    let mut s = String::with_capacity(b.len() * 2);
    for x in b {
        s.push_str(&format!("{:02x}", x));
    }
    s
}

pub fn unhex(s: &str) -> Vec<u8> {
    let b = s.as_bytes();
    let mut out = Vec::with_capacity(b.len() / 2);
    let mut i = 0;
    while i + 1 < b.len() {
        let h = (b[i] as char).to_digit(16).unwrap_or(0) as u8;
        let l = (b[i + 1] as char).to_digit(16).unwrap_or(0) as u8;
        out.push(h * 16 + l);
        i += 2;
    }
    out
}

/// Bytes as a JSON value that is readable when UTF-8 and exact otherwise.
pub fn bytes_json(b: &[u8]) -> Value {
    match std::str::from_utf8(b) {
        Ok(s) => json!({"text": s, "hex": hex(b)}),
        Err(_) => json!({"lossy": String::from_utf8_lossy(b), "hex": hex(b)}),
    }
}

pub fn bytes_from_json(v: &Value) -> Vec<u8> {
    if let Some(runs) = v["rle"].as_array() {
        let mut out = vec![];
        for r in runs {
            let piece = unhex(r[0].as_str().unwrap_or(""));
            for _ in 0..r[1].as_u64().unwrap_or(1) {
                out.extend_from_slice(&piece);
            }
        }
        out
    } else if let Some(h) = v["hex"].as_str() {
        unhex(h)
    } else if let Some(s) = v.as_str() {
        s.as_bytes().to_vec()
    } else {
        vec![]
    }
}

/// Large inputs with long runs of one byte: `{"rle": [[hex piece, repeat count], ...], "len": n}`;
/// falls back to plain hex when that is not shorter.
pub fn bytes_json_rle(b: &[u8]) -> Value {
    let mut runs: Vec<(Vec<u8>, u64)> = vec![];
    let mut i = 0;
    while i < b.len() {
        let mut j = i;
        while j < b.len() && b[j] == b[i] {
            j += 1;
        }
        if j - i >= 16 {
            runs.push((vec![b[i]], (j - i) as u64));
        } else {
            match runs.last_mut() {
                Some((piece, 1)) => piece.extend_from_slice(&b[i..j]),
                _ => runs.push((b[i..j].to_vec(), 1)),
            }
        }
        i = j;
    }
    let cost: usize = runs.iter().map(|(p, _)| 2 * p.len() + 12).sum();
    if cost < b.len() {
        serde_json::json!({"rle": runs.iter().map(|(p, n)| serde_json::json!([hex(p), n])).collect::<Vec<_>>(), "len": b.len()})
    } else {
        serde_json::json!({"hex": hex(b), "len": b.len()})
    }
}

/// Run a closure on the subject, turning a panic into `Err(message)`.
pub fn guard<T>(f: impl FnOnce() -> T) -> Result<T, String> {
    match std::panic::catch_unwind(std::panic::AssertUnwindSafe(f)) {
        Ok(v) => Ok(v),
        Err(e) => {
            let msg = if let Some(s) = e.downcast_ref::<&str>() {
                s.to_string()
            } else if let Some(s) = e.downcast_ref::<String>() {
                s.clone()
            } else {
                "panic".to_string()
            };
            Err(msg)
        }
    }
}
