//! Digest oracle: the RustCrypto one-shot functions called directly by name,
//! self-tested against published vectors before any use, so the trusted base
//! is "these six crates reproduce the standards' test vectors".

use digest::Digest;

pub const ALGOS: [&str; 6] = ["BLAKE2s", "MD5", "RMD160", "SHA1", "SHA256", "SHA512"];

fn hex(b: &[u8]) -> String {
    b.iter().map(|x| format!("{:02x}", x)).collect()
}

pub fn digest(algo: &str, data: &[u8]) -> String {
    match algo {
        "BLAKE2s" => hex(&blake2::Blake2s256::digest(data)),
        "MD5" => hex(&md5::Md5::digest(data)),
        "RMD160" => hex(&ripemd::Ripemd160::digest(data)),
        "SHA1" => hex(&sha1::Sha1::digest(data)),
        "SHA256" => hex(&sha2::Sha256::digest(data)),
        "SHA512" => hex(&sha2::Sha512::digest(data)),
        _ => panic!("model: unknown algorithm {}", algo),
    }
}

/// The input a patch hash is taken over: every newline-terminated line
/// containing "$NetBSD" removed, a final unterminated line counting as
/// terminated.
pub fn patch_filter(data: &[u8]) -> Vec<u8> {
    let mut out = vec![];
    if data.is_empty() {
        return out;
    }
    let mut lines: Vec<&[u8]> = data.split(|c| *c == b'\n').collect();
    if data.ends_with(b"\n") {
        lines.pop();
    }
    for l in lines {
        if l.windows(7).any(|w| w == b"$NetBSD") {
            continue;
        }
        out.extend_from_slice(l);
        out.push(b'\n');
    }
    out
}

/// Published test vectors.  Returns the list of failures (empty = trusted).
pub fn self_test() -> Vec<String> {
    let abc448 = b"abcdbcdecdefdefgefghfghighijhijkijkljklmklmnlmnomnopnopq";
    let v: Vec<(&str, &[u8], &str)> = vec![
        // RFC 1321
        ("MD5", b"", "d41d8cd98f00b204e9800998ecf8427e"),
        ("MD5", b"abc", "900150983cd24fb0d6963f7d28e17f72"),
        ("MD5", b"message digest", "f96b697d7cb7938d525a2f31aaf161d0"),
        // FIPS 180-4 examples
        ("SHA1", b"abc", "a9993e364706816aba3e25717850c26c9cd0d89d"),
        ("SHA1", abc448, "84983e441c3bd26ebaae4aa1f95129e5e54670f1"),
        (
            "SHA256",
            b"abc",
            "ba7816bf8f01cfea414140de5dae2223b00361a396177a9cb410ff61f20015ad",
        ),
        (
            "SHA256",
            abc448,
            "248d6a61d20638b8e5c026930c3e6039a33ce45964ff2167f6ecedd419db06c1",
        ),
        (
            "SHA512",
            b"abc",
            "ddaf35a193617abacc417349ae20413112e6fa4e89a97ea20a9eeee64b55d39a2192992a274fc1a836ba3c23a3feebbd454d4423643ce80e2a9ac94fa54ca49f",
        ),
        // RIPEMD-160 paper
        ("RMD160", b"", "9c1185a5c5e9fc54612808977ee8f548b2258d31"),
        ("RMD160", b"abc", "8eb208f7e05d987a9b044a8e98c6b087f15a0bfc"),
        (
            "RMD160",
            b"message digest",
            "5d0689ef49d2fae572b881b123a85ffa21595f36",
        ),
        // RFC 7693 appendix B
        (
            "BLAKE2s",
            b"abc",
            "508c5e8c327c14e2e1a72ba34eeb452f37458b209ed63a294d999b4c86675982",
        ),
    ];
    let mut bad = vec![];
    for (a, d, want) in v {
        let got = digest(a, d);
        if got != want {
            bad.push(format!("{} of {:?}: {} != {}", a, d, got, want));
        }
    }
    bad
}
