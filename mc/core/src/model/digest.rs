//! Digest oracle: the RustCrypto one-shot functions called directly by name,
//! self-tested against published vectors before any use, so the trusted base
//! is "these six crates reproduce the standards' test vectors".

use digest::Digest;

pub const ALGOS: [&str; 6] = ["BLAKE2s", "MD5", "RMD160", "SHA1", "SHA256", "SHA512"];

fn hex(b: &[u8]) -> String {
    b.iter().map(|x| format!("{:02x}", x)).collect()
}

pub fn digest(algo: &str, data: &[u8]) -> String {
    match algo {
        "BLAKE2s" => hex(&blake2::Blake2s256::digest(data)),
        "MD5" => hex(&md5::Md5::digest(data)),
        "RMD160" => hex(&ripemd::Ripemd160::digest(data)),
        "SHA1" => hex(&sha1::Sha1::digest(data)),
        "SHA256" => hex(&sha2::Sha256::digest(data)),
        "SHA512" => hex(&sha2::Sha512::digest(data)),
        _ => panic!("model: unknown algorithm {}", algo),
    }
}

/// The input a patch hash is taken over: every newline-terminated line
/// containing "$NetBSD" removed, a final unterminated line counting as
/// terminated.
pub fn patch_filter(data: &[u8]) -> Vec<u8> {
    let mut out = vec![];
    if data.is_empty() {
        return out;
    }
    let mut lines: Vec<&[u8]> = data.split(|c| *c == b'\n').collect();
    if data.ends_with(b"\n") {
        lines.pop();
    }
    for l in lines {
        if l.windows(7).any(|w| w == b"$NetBSD") {
            continue;
        }
        out.extend_from_slice(l);
        out.push(b'\n');
    }
    out
}

/// Published test vectors.  Returns the list of failures (empty = trusted).
pub fn self_test() -> Vec<String> {
    let abc448 = b"abcdbcdecdefdefgefghfghighijhijkijkljklmklmnlmnomnopnopq";
    let v: Vec<(&str, &[u8], &str)> = vec![
        // RFC 1321
        ("MD5", b"", "d41d8cd98f00b204e9800998ecf8427e"),
        ("MD5", b"abc", "900150983cd24fb0d6963f7d28e17f72"),
        ("MD5", b"message digest", "f96b697d7cb7938d525a2f31aaf161d0"),
        // FIPS 180-4 examples
        ("SHA1", b"abc", "a9993e364706816aba3e25717850c26c9cd0d89d"),
        ("SHA1", abc448, "84983e441c3bd26ebaae4aa1f95129e5e54670f1"),
        (
            "SHA256",
            b"abc",
            "ba7816bf8f01cfea414140de5dae2223b00361a396177a9cb410ff61f20015ad",
        ),
        (
            "SHA256",
            abc448,
            "248d6a61d20638b8e5c026930c3e6039a33ce45964ff2167f6ecedd419db06c1",
        ),
        (
            "SHA512",
            b"abc",
            "ddaf35a193617abacc417349ae20413112e6fa4e89a97ea20a9eeee64b55d39a2192992a274fc1a836ba3c23a3feebbd454d4423643ce80e2a9ac94fa54ca49f",
        ),
        // RIPEMD-160 paper
        ("RMD160", b"", "9c1185a5c5e9fc54612808977ee8f548b2258d31"),
        ("RMD160", b"abc", "8eb208f7e05d987a9b044a8e98c6b087f15a0bfc"),
        (
            "RMD160",
            b"message digest",
            "5d0689ef49d2fae572b881b123a85ffa21595f36",
        ),
        // RFC 7693 appendix B
        (
            "BLAKE2s",
            b"abc",
            "508c5e8c327c14e2e1a72ba34eeb452f37458b209ed63a294d999b4c86675982",
        ),
    ];
    let mut bad = vec![];
    for (a, d, want) in v {
        let got = digest(a, d);
        if got != want {
            bad.push(format!("{} of {:?}: {} != {}", a, d, got, want));
        }
    }
    // multi-block inputs: one million 'a' (published for MD5, SHA-1, SHA-2 and RIPEMD-160;
    // BLAKE2s from an independent implementation), and 1000 / 65537 bytes of the drivers'
    // byte pattern, digests computed with an independent implementation (OpenSSL via Python's
    // hashlib)
    let pattern = |n: usize| -> Vec<u8> { (0..n).map(|i| ((i * 7 + 3) % 256) as u8).collect() };
    let big: Vec<(&str, Vec<u8>, &str)> = vec![
        ("BLAKE2s", vec![b'a'; 1_000_000], "bec0c0e6cde5b67acb73b81f79a67a4079ae1c60dac9d2661af18e9f8b50dfa5"),
        ("MD5", vec![b'a'; 1_000_000], "7707d6ae4e027c70eea2a935c2296f21"),
        ("RMD160", vec![b'a'; 1_000_000], "52783243c1697bdbe16d37f97f68f08325dc1528"),
        ("SHA1", vec![b'a'; 1_000_000], "34aa973cd4c4daa4f61eeb2bdbad27316534016f"),
        ("SHA256", vec![b'a'; 1_000_000], "cdc76e5c9914fb9281a1c7e284d73e67f1809a48a497200e046d39ccc7112cd0"),
        ("SHA512", vec![b'a'; 1_000_000], "e718483d0ce769644e2e42c7bc15b4638e1f98b13b2044285632a803afa973ebde0ff244877ea60a4cb0432ce577c31beb009c5c2c49aa2e4eadb217ad8cc09b"),
        ("BLAKE2s", pattern(1000), "02a016193469710efadf8fb005ca19b509331cb847df5598cc0794bded669681"),
        ("MD5", pattern(1000), "10046f077f2082ac19676b8079f1cb1a"),
        ("RMD160", pattern(1000), "462fa67a8f19c1df2d98cff47379ba31d681b572"),
        ("SHA1", pattern(1000), "4231a8a50a10fa9758db8ec71fdef855b751048a"),
        ("SHA256", pattern(1000), "1e9bc38cbf860b9ec31918b065f9b52476c549a782e0e7990bed8ce3868d2371"),
        ("SHA512", pattern(1000), "00e36fccf193e59697a92b5ab24666ce6326d7fa16bf10832d0991ddc591112e9dfa6a636950ed9c4d67344a760654c2ff7785e1d60094d651038735b5dccabd"),
        ("BLAKE2s", pattern(65537), "1d6d8791c9ddd7996da479618d4863611477454777cf36d28c9e316d48031e72"),
        ("MD5", pattern(65537), "8bbe2ba9b420c53493027ed87dbc57c8"),
        ("RMD160", pattern(65537), "e83499efac58efc532216c6bd376a0983078ab45"),
        ("SHA1", pattern(65537), "445ae28c60d5dd584606c8f399c2ae4581279c7a"),
        ("SHA256", pattern(65537), "ad8b370d36508e55e3c9cd44667a6e36e35955d0ff9f8fe59805bb18c2db5dd8"),
        ("SHA512", pattern(65537), "09ea91cb14254d3769252330d6deed58ac5c5579a7cd22767073c2976e999d0da03590c9fb524859155bcd8eeaf9a14cd1051449b4533f7b37a2abed43c4b44e"),
    ];
    for (a, d, want) in big {
        let got = digest(a, &d);
        if got != want {
            bad.push(format!("{} of {} bytes: {} != {}", a, d.len(), got, want));
        }
    }
    bad
}
