//! pbulk-index record splitting as stated by C16.

use std::collections::BTreeMap;

pub const SCALAR_KEYS: [&str; 10] = [
    "PKG_SKIP_REASON",
    "PKG_FAIL_REASON",
    "NO_BIN_ON_FTP",
    "RESTRICTED",
    "CATEGORIES",
    "MAINTAINER",
    "USE_DESTDIR",
    "BOOTSTRAP_PKG",
    "USERGROUP_PHASE",
    "PBULK_WEIGHT",
];

pub const KNOWN_KEYS: [&str; 15] = [
    "PKGNAME",
    "ALL_DEPENDS",
    "PKG_LOCATION",
    "PKG_SKIP_REASON",
    "PKG_FAIL_REASON",
    "NO_BIN_ON_FTP",
    "RESTRICTED",
    "CATEGORIES",
    "MAINTAINER",
    "USE_DESTDIR",
    "BOOTSTRAP_PKG",
    "USERGROUP_PHASE",
    "SCAN_DEPENDS",
    "PBULK_WEIGHT",
    "MULTI_VERSION",
];

#[derive(Clone, PartialEq, Eq, Debug, Default)]
pub struct Record {
    pub pkgname: String,
    pub location: Option<String>,
    pub all_depends: Vec<String>,
    pub scalars: BTreeMap<String, String>,
    pub scan_depends: Vec<String>,
    pub multi_version: Vec<String>,
}

fn trim(s: &str) -> &str {
    s.trim_matches(|c: char| c == ' ' || c == '\t')
}

fn items(v: &str) -> Vec<String> {
    v.split(|c: char| c == ' ' || c == '\t')
        .filter(|s| !s.is_empty())
        .map(|s| s.to_string())
        .collect()
}

/// `lines` are the input lines without their newline.  `dep_ok` / `loc_ok`
/// decide the validity of one ALL_DEPENDS item / of a PKG_LOCATION value.
///
/// Outcome `Err(())`: the read must fail as a whole.
/// Outcome `Ok(None)`: the statement does not decide this input (a leading
/// block made only of ignorable lines) - callers skip it.
pub fn parse(
    lines: &[&str],
    dep_ok: &dyn Fn(&str) -> bool,
    loc_ok: &dyn Fn(&str) -> bool,
) -> Result<Option<Vec<Record>>, ()> {
    // blocks: (has PKGNAME line at its head, key/value lines)
    let mut blocks: Vec<(bool, Vec<(String, String)>, usize)> = vec![];
    for raw in lines {
        let l = trim(raw);
        if l.is_empty() {
            continue;
        }
        let starts = l.starts_with("PKGNAME=");
        if starts || blocks.is_empty() {
            blocks.push((starts, vec![], 0));
        }
        let b = blocks.last_mut().unwrap();
        b.2 += 1;
        if let Some(eq) = l.find('=') {
            b.1.push((trim(&l[..eq]).to_string(), trim(&l[eq + 1..]).to_string()));
        }
    }
    let mut undecided = false;
    let mut out = vec![];
    for (has_name, kvs, _n) in &blocks {
        if !has_name {
            // only the first block can lack its PKGNAME line
            if kvs.iter().any(|(k, _)| KNOWN_KEYS.contains(&k.as_str())) {
                return Err(());
            }
            undecided = true;
            continue;
        }
        let mut r = Record::default();
        for (k, v) in kvs {
            match k.as_str() {
                "PKGNAME" => r.pkgname = v.clone(),
                "PKG_LOCATION" => r.location = Some(v.clone()),
                "ALL_DEPENDS" => r.all_depends = items(v),
                "SCAN_DEPENDS" => r.scan_depends = items(v),
                "MULTI_VERSION" => r.multi_version = items(v),
                k if SCALAR_KEYS.contains(&k) => {
                    r.scalars.insert(k.to_string(), v.clone());
                }
                _ => {}
            }
        }
        if let Some(l) = &r.location {
            if !loc_ok(l) {
                return Err(());
            }
        }
        if r.all_depends.iter().any(|d| !dep_ok(d)) {
            return Err(());
        }
        out.push(r);
    }
    if undecided {
        return Ok(None);
    }
    Ok(Some(out))
}
