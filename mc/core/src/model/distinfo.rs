//! distinfo rules of C10/C11: line recognition, grouping, serialisation, and
//! the distfile/patchfile classifier.

pub const ALGOS: [&str; 6] = ["BLAKE2s", "MD5", "RMD160", "SHA1", "SHA256", "SHA512"];

#[derive(Clone, PartialEq, Eq, Debug)]
pub struct File {
    pub name: Vec<u8>,
    pub checksums: Vec<(String, String)>,
    pub size: Option<u64>,
}

#[derive(Clone, PartialEq, Eq, Debug, Default)]
pub struct Model {
    pub rcsid: Option<Vec<u8>>,
    pub distfiles: Vec<File>,
    pub patchfiles: Vec<File>,
}

/// Classifier verdict for a name.
#[derive(Clone, Copy, PartialEq, Eq, Debug)]
pub enum Class {
    Dist,
    Patch,
    /// the statement's wording does not decide this name (see below)
    Ambiguous,
}

fn find_sub(h: &[u8], n: &[u8], from: usize) -> Option<usize> {
    if n.is_empty() || h.len() < n.len() {
        return None;
    }
    (from..=h.len() - n.len()).find(|i| &h[*i..*i + n.len()] == n)
}

/// patch-* and emul-*-patch-*, except patch-local-*, *.orig, *.rej, *~ and
/// names containing ".tar."; decided on the file-name part only.
///
/// "emul-*-patch-*" read as a glob needs "-patch-" to start at or after the
/// end of "emul-"; a name like "emul-patch-x", where the only "-patch-"
/// shares its first '-' with "emul-", is left undecided.
pub fn classify(name: &[u8]) -> Class {
    let s: &[u8] = match name.iter().rposition(|c| *c == b'/') {
        Some(i) => &name[i + 1..],
        None => name,
    };
    if s.starts_with(b"patch-local-")
        || s.ends_with(b".orig")
        || s.ends_with(b".rej")
        || s.ends_with(b"~")
    {
        return Class::Dist;
    }
    let has_tar = find_sub(s, b".tar.", 0).is_some();
    if s.starts_with(b"patch-") {
        return if has_tar { Class::Dist } else { Class::Patch };
    }
    if s.starts_with(b"emul-") {
        let strict = find_sub(s, b"-patch-", 5).is_some();
        let loose = find_sub(s, b"-patch-", 4).is_some();
        if has_tar {
            return Class::Dist;
        }
        if strict {
            return Class::Patch;
        }
        if loose {
            return Class::Ambiguous;
        }
    }
    Class::Dist
}

fn is_ws(b: u8) -> bool {
    b == b' ' || (0x09..=0x0d).contains(&b)
}

#[derive(Clone, PartialEq, Eq, Debug)]
pub enum Line {
    RcsId(Vec<u8>),
    Size(Vec<u8>, u64),
    Checksum(String, Vec<u8>, String),
    Nothing,
}

fn parse_u64(s: &[u8]) -> Option<u64> {
    if s.is_empty() || !s.iter().all(|c| c.is_ascii_digit()) {
        return None;
    }
    let mut v: u128 = 0;
    for c in s {
        v = v * 10 + (*c - b'0') as u128;
        if v > u64::MAX as u128 {
            return None;
        }
    }
    Some(v as u64)
}

/// One line (without its newline).
pub fn parse_line(line: &[u8]) -> Line {
    let mut st = 0;
    while st < line.len() && is_ws(line[st]) {
        st += 1;
    }
    let line = &line[st..];
    if line.is_empty() || line[0] == b'#' {
        return Line::Nothing;
    }
    if line.starts_with(b"$NetBSD: ") {
        return Line::RcsId(line.to_vec());
    }
    let fields: Vec<&[u8]> = line
        .split(|c| is_ws(*c))
        .filter(|f| !f.is_empty())
        .collect();
    // 'ALGORITHM (name) = hash' / 'Size (name) = N bytes': anything with fewer fields, or
    // without the '=', is not a line of either form
    if fields.len() < 4 || fields[2] != b"=" {
        return Line::Nothing;
    }
    let f1 = fields[1];
    if f1.len() < 2 || f1[0] != b'(' || f1[f1.len() - 1] != b')' {
        return Line::Nothing;
    }
    let name = f1[1..f1.len() - 1].to_vec();
    if fields[0] == b"Size" {
        return match parse_u64(fields[3]) {
            Some(n) => Line::Size(name, n),
            None => Line::Nothing,
        };
    }
    for a in ALGOS {
        if fields[0] == a.as_bytes() {
            return match std::str::from_utf8(fields[3]) {
                Ok(h) => Line::Checksum(a.to_string(), name, h.to_string()),
                Err(_) => Line::Nothing,
            };
        }
    }
    Line::Nothing
}

/// How two recorded names are compared.
#[derive(Clone, Copy, PartialEq, Eq, Debug)]
pub enum NameEq {
    /// the statement: "under exactly that name" - byte for byte
    Bytes,
    /// signature of known finding `distinfo-names-path-equality`: names that are equal as
    /// paths (repeated or trailing '/', '.' segments) share one entry, under the first spelling
    PathComponents,
}

/// Group recognised lines by file name in first-appearance order.  Names
/// whose class is `Ambiguous` must not be passed (callers exclude them).
pub fn parse(text: &[u8]) -> Model {
    parse_with(text, NameEq::Bytes)
}

pub fn parse_with(text: &[u8], eq: NameEq) -> Model {
    let mut m = Model::default();
    for line in text.split(|c| *c == b'\n') {
        match parse_line(line) {
            Line::Nothing => {}
            Line::RcsId(r) => m.rcsid = Some(r),
            Line::Size(name, n) => {
                let f = slot(&mut m, &name, eq);
                f.size = Some(n);
            }
            Line::Checksum(a, name, h) => {
                let f = slot(&mut m, &name, eq);
                f.checksums.push((a, h));
            }
        }
    }
    m
}

fn same_name(a: &[u8], b: &[u8], eq: NameEq) -> bool {
    use std::os::unix::ffi::OsStrExt;
    match eq {
        NameEq::Bytes => a == b,
        NameEq::PathComponents => std::path::Path::new(std::ffi::OsStr::from_bytes(a)) == std::path::Path::new(std::ffi::OsStr::from_bytes(b)),
    }
}

fn slot<'a>(m: &'a mut Model, name: &[u8], eq: NameEq) -> &'a mut File {
    let list = match classify(name) {
        Class::Patch => &mut m.patchfiles,
        _ => &mut m.distfiles,
    };
    if let Some(i) = list.iter().position(|f| same_name(&f.name, name, eq)) {
        return &mut list[i];
    }
    list.push(File {
        name: name.to_vec(),
        checksums: vec![],
        size: None,
    });
    list.last_mut().unwrap()
}

pub fn file_bytes(f: &File, with_size: bool) -> Vec<u8> {
    let mut out = vec![];
    for (a, h) in &f.checksums {
        out.extend_from_slice(a.as_bytes());
        out.extend_from_slice(b" (");
        out.extend_from_slice(&f.name);
        out.extend_from_slice(b") = ");
        out.extend_from_slice(h.as_bytes());
        out.push(b'\n');
    }
    if with_size {
        if let Some(n) = f.size {
            out.extend_from_slice(b"Size (");
            out.extend_from_slice(&f.name);
            out.extend_from_slice(format!(") = {} bytes\n", n).as_bytes());
        }
    }
    out
}

/// Canonical layout: RCS Id line, blank line, distfiles (checksums then
/// size), patches (checksums).
pub fn serialise(m: &Model) -> Vec<u8> {
    let mut out = vec![];
    match &m.rcsid {
        Some(r) => out.extend_from_slice(r),
        None => out.extend_from_slice(b"$NetBSD$"),
    }
    out.extend_from_slice(b"\n\n");
    for f in &m.distfiles {
        out.extend_from_slice(&file_bytes(f, true));
    }
    for f in &m.patchfiles {
        out.extend_from_slice(&file_bytes(f, false));
    }
    out
}

#[cfg(test)]
mod tests {
    use super::*;
    #[test]
    fn classes() {
        assert_eq!(classify(b"patch-aa"), Class::Patch);
        assert_eq!(classify(b"d/patch-aa"), Class::Patch);
        assert_eq!(classify(b"patch-local-x"), Class::Dist);
        assert_eq!(classify(b"patch-2.7.6.tar.xz"), Class::Dist);
        assert_eq!(classify(b"foo.patch-1"), Class::Dist);
        assert_eq!(classify(b"emul-x-patch-a"), Class::Patch);
        assert_eq!(classify(b"emul-patch-a"), Class::Ambiguous);
        assert_eq!(classify(b"patch-aa.orig"), Class::Dist);
        assert_eq!(classify(b"patch-aa~"), Class::Dist);
    }
    #[test]
    fn lines() {
        assert_eq!(
            parse_line(b"  SHA1 \t(f.tgz)  =  abc"),
            Line::Checksum("SHA1".into(), b"f.tgz".to_vec(), "abc".into())
        );
        assert_eq!(parse_line(b"Size (f) = 7 bytes"), Line::Size(b"f".to_vec(), 7));
        assert_eq!(parse_line(b"Size (f) = many bytes"), Line::Nothing);
        assert_eq!(parse_line(b"FOO (f) = x"), Line::Nothing);
        assert_eq!(parse_line(b"# SHA1 (f) = x"), Line::Nothing);
    }
}
