//! The dewey version rule of property C01, and the dewey pattern rule of C02.
//!
//! Version -> components, left to right:
//!   digit run            its numeric value
//!   '.', '_', "pl"       0
//!   "alpha"              -3
//!   "beta"               -2
//!   "rc", "pre"          -1
//!   "nb<N>"              sets the package revision (missing digits = 0)
//!   other ASCII letter   0 followed by its alphabet rank (a=1 .. z=26)
//!   anything else        ignored
//! letters and modifiers are ASCII case-insensitive.  Comparison: position by
//! position with missing components read as 0; the revision decides only when
//! all components tie.

use std::cmp::Ordering;

#[derive(Clone, Copy, PartialEq, Eq, Debug)]
pub enum LetterWeight {
    /// the rule of the statement: a=1 .. z=26
    Rank,
    /// signature of known finding `letter-weight-ascii`: the lower-case ASCII
    /// code (a=97 .. z=122)
    AsciiLower,
}

#[derive(Clone, PartialEq, Eq, Debug, Hash)]
pub struct Ver {
    pub comps: Vec<i64>,
    pub rev: i64,
}

fn starts_ci(s: &[char], i: usize, word: &str) -> bool {
    let w: Vec<char> = word.chars().collect();
    if i + w.len() > s.len() {
        return false;
    }
    for (j, c) in w.iter().enumerate() {
        if s[i + j].to_ascii_lowercase() != *c {
            return false;
        }
    }
    true
}

fn digits_value(s: &[char]) -> i64 {
    // callers keep digit runs <= 18 digits where the value matters; saturate
    // otherwise so that the model never panics
    let mut v: i64 = 0;
    for c in s {
        let d = (*c as u8 - b'0') as i64;
        v = match v.checked_mul(10).and_then(|x| x.checked_add(d)) {
            Some(x) => x,
            None => return i64::MAX,
        };
    }
    v
}

pub fn tokenise(v: &str, lw: LetterWeight) -> Ver {
    let s: Vec<char> = v.chars().collect();
    let mut comps = vec![];
    let mut rev = 0i64;
    let mut i = 0;
    while i < s.len() {
        let c = s[i];
        if c.is_ascii_digit() {
            let mut j = i;
            while j < s.len() && s[j].is_ascii_digit() {
                j += 1;
            }
            comps.push(digits_value(&s[i..j]));
            i = j;
        } else if c == '.' || c == '_' {
            comps.push(0);
            i += 1;
        } else if starts_ci(&s, i, "alpha") {
            comps.push(-3);
            i += 5;
        } else if starts_ci(&s, i, "beta") {
            comps.push(-2);
            i += 4;
        } else if starts_ci(&s, i, "pre") {
            comps.push(-1);
            i += 3;
        } else if starts_ci(&s, i, "rc") {
            comps.push(-1);
            i += 2;
        } else if starts_ci(&s, i, "pl") {
            comps.push(0);
            i += 2;
        } else if starts_ci(&s, i, "nb") {
            let mut j = i + 2;
            while j < s.len() && s[j].is_ascii_digit() {
                j += 1;
            }
            rev = if j > i + 2 { digits_value(&s[i + 2..j]) } else { 0 };
            i = j;
        } else if c.is_ascii_alphabetic() {
            comps.push(0);
            let l = c.to_ascii_lowercase();
            comps.push(match lw {
                LetterWeight::Rank => (l as u8 - b'a') as i64 + 1,
                LetterWeight::AsciiLower => l as u8 as i64,
            });
            i += 1;
        } else {
            i += 1;
        }
    }
    Ver { comps, rev }
}

pub fn cmp(a: &Ver, b: &Ver) -> Ordering {
    let n = a.comps.len().max(b.comps.len());
    for i in 0..n {
        let x = a.comps.get(i).copied().unwrap_or(0);
        let y = b.comps.get(i).copied().unwrap_or(0);
        if x != y {
            return x.cmp(&y);
        }
    }
    a.rev.cmp(&b.rev)
}

#[derive(Clone, Copy, PartialEq, Eq, Debug, Hash, PartialOrd, Ord)]
pub enum Op {
    Gt,
    Ge,
    Lt,
    Le,
}

pub const OPS: [Op; 4] = [Op::Gt, Op::Ge, Op::Lt, Op::Le];

impl Op {
    pub fn text(self) -> &'static str {
        match self {
            Op::Gt => ">",
            Op::Ge => ">=",
            Op::Lt => "<",
            Op::Le => "<=",
        }
    }
    pub fn holds(self, o: Ordering) -> bool {
        match self {
            Op::Gt => o == Ordering::Greater,
            Op::Ge => o != Ordering::Less,
            Op::Lt => o == Ordering::Less,
            Op::Le => o != Ordering::Greater,
        }
    }
    /// the operator that gives the same verdict with the operands swapped
    pub fn mirror(self) -> Op {
        match self {
            Op::Gt => Op::Lt,
            Op::Ge => Op::Le,
            Op::Lt => Op::Gt,
            Op::Le => Op::Ge,
        }
    }
    pub fn is_lower_bound(self) -> bool {
        matches!(self, Op::Gt | Op::Ge)
    }
}

/// `pkgversion OP bound`
pub fn test(pkgver: &str, op: Op, bound: &str, lw: LetterWeight) -> bool {
    op.holds(cmp(&tokenise(pkgver, lw), &tokenise(bound, lw)))
}

/// A compiled dewey pattern per C02: BASE and one or two (op, bound text).
#[derive(Clone, Debug, PartialEq, Eq)]
pub struct DeweyPat {
    pub base: String,
    pub bounds: Vec<(Op, String)>,
}

/// Scan a brace-free pattern string.  `None` = must be rejected at compile
/// time (no operator, more than two, or two in any order other than
/// lower-bound then upper-bound).
pub fn parse_pattern(p: &str) -> Option<DeweyPat> {
    let s: Vec<char> = p.chars().collect();
    // (start of operator, end of operator, op)
    let mut ops: Vec<(usize, usize, Op)> = vec![];
    let mut i = 0;
    while i < s.len() {
        if s[i] == '<' || s[i] == '>' {
            let eq = i + 1 < s.len() && s[i + 1] == '=';
            let op = match (s[i], eq) {
                ('>', true) => Op::Ge,
                ('>', false) => Op::Gt,
                ('<', true) => Op::Le,
                _ => Op::Lt,
            };
            let end = if eq { i + 2 } else { i + 1 };
            ops.push((i, end, op));
            i = end;
        } else {
            i += 1;
        }
    }
    let ok = match ops.len() {
        1 => true,
        2 => ops[0].2.is_lower_bound() && !ops[1].2.is_lower_bound(),
        _ => false,
    };
    if !ok {
        return None;
    }
    let base: String = s[..ops[0].0].iter().collect();
    let mut bounds = vec![];
    for (n, (_, end, op)) in ops.iter().enumerate() {
        let stop = if n + 1 < ops.len() { ops[n + 1].0 } else { s.len() };
        bounds.push((*op, s[*end..stop].iter().collect::<String>()));
    }
    Some(DeweyPat { base, bounds })
}

/// Split a package name at its last '-'.
pub fn split_name(name: &str) -> Option<(&str, &str)> {
    name.rfind('-').map(|i| (&name[..i], &name[i + 1..]))
}

impl DeweyPat {
    pub fn matches(&self, name: &str, lw: LetterWeight) -> bool {
        let Some((base, ver)) = split_name(name) else {
            return false;
        };
        if base.as_bytes() != self.base.as_bytes() {
            return false;
        }
        self.bounds.iter().all(|(op, b)| test(ver, *op, b, lw))
    }
}

#[cfg(test)]
mod tests {
    use super::*;
    #[test]
    fn basics() {
        let r = LetterWeight::Rank;
        assert!(test("1.0pre1", Op::Lt, "1.0", r));
        assert!(test("1.0PRE1", Op::Ge, "1.0rc1", r));
        assert!(test("1.0pre1", Op::Le, "1.0rc1", r));
        assert!(test("1.1a", Op::Lt, "1.1.5", r));
        assert!(!test("1.1a", Op::Lt, "1.1.5", LetterWeight::AsciiLower));
        assert!(test("1.0nb2", Op::Gt, "1.0nb1", r));
        assert!(test("1.0", Op::Ge, "1", r));
        assert!(test("1.0", Op::Le, "1", r));
        let p = parse_pattern("p>=1<2").unwrap();
        assert!(p.matches("p-1.5", r));
        assert!(!p.matches("p-2", r));
        assert!(!p.matches("pq-1.5", r));
        assert!(parse_pattern("p<1>2").is_none());
        assert!(parse_pattern("p").is_none());
        assert!(parse_pattern("p>1<2<3").is_none());
        assert_eq!(parse_pattern("p>=<1").unwrap().bounds[0].1, "");
    }
}
