//! Reference models, written from the property statements (not from the
//! implementation).  They define only what the statements define.

pub mod brace;
pub mod dewey;
pub mod digest;
pub mod distinfo;
pub mod glob;
pub mod pattern;
pub mod pkgpath;
pub mod plist;
pub mod scanindex;
pub mod summary;
