//! csh-style brace expansion as stated by property C04: nested groups
//! expanded, commas separate alternatives only at their own group's depth,
//! empty alternatives allowed; a pattern is acceptable exactly when its braces
//! are properly nested.

#[derive(Debug, Clone)]
enum Node {
    Lit(String),
    Group(Vec<Vec<Node>>),
}

pub fn balanced(p: &str) -> bool {
    let mut d: i64 = 0;
    for c in p.chars() {
        if c == '{' {
            d += 1;
        } else if c == '}' {
            d -= 1;
            if d < 0 {
                return false;
            }
        }
    }
    d == 0
}

// parse a sequence until an unmatched '}' or ',' (when inside a group) or end
fn parse_seq(s: &[char], i: &mut usize, inside: bool) -> Vec<Node> {
    let mut out = vec![];
    let mut lit = String::new();
    while *i < s.len() {
        let c = s[*i];
        if c == '{' {
            if !lit.is_empty() {
                out.push(Node::Lit(std::mem::take(&mut lit)));
            }
            *i += 1;
            let mut alts = vec![];
            loop {
                let alt = parse_seq(s, i, true);
                alts.push(alt);
                // s[*i] is ',' or '}' (balanced input)
                let t = s[*i];
                *i += 1;
                if t == '}' {
                    break;
                }
            }
            out.push(Node::Group(alts));
        } else if inside && (c == ',' || c == '}') {
            break;
        } else {
            lit.push(c);
            *i += 1;
        }
    }
    if !lit.is_empty() {
        out.push(Node::Lit(lit));
    }
    out
}

fn expand_seq(seq: &[Node], limit: usize) -> Option<Vec<String>> {
    let mut acc = vec![String::new()];
    for n in seq {
        let parts: Vec<String> = match n {
            Node::Lit(l) => vec![l.clone()],
            Node::Group(alts) => {
                let mut v = vec![];
                for a in alts {
                    v.extend(expand_seq(a, limit)?);
                }
                v
            }
        };
        let mut next = Vec::with_capacity(acc.len() * parts.len());
        for a in &acc {
            for p in &parts {
                next.push(format!("{}{}", a, p));
            }
        }
        if next.len() > limit {
            return None;
        }
        acc = next;
    }
    Some(acc)
}

/// All strings of the expansion, in csh order (duplicates kept).  `None` if
/// the braces are not properly nested.  Panics never; expansions larger than
/// `limit` strings return `Some(vec![])` is *not* used - they return None too,
/// and callers keep their alphabets below that size.
pub fn expand(p: &str, limit: usize) -> Option<Vec<String>> {
    if !balanced(p) {
        return None;
    }
    let s: Vec<char> = p.chars().collect();
    let mut i = 0;
    let seq = parse_seq(&s, &mut i, false);
    debug_assert_eq!(i, s.len());
    expand_seq(&seq, limit)
}

#[cfg(test)]
mod tests {
    use super::*;
    #[test]
    fn expansions() {
        assert_eq!(expand("{a{b,c},d}", 100).unwrap(), vec!["ab", "ac", "d"]);
        assert_eq!(expand("a{,b}", 100).unwrap(), vec!["a", "ab"]);
        assert_eq!(expand("{}", 100).unwrap(), vec![""]);
        assert_eq!(expand("a,b{c,d}", 100).unwrap(), vec!["a,bc", "a,bd"]);
        assert_eq!(
            expand("{a,b}{c,d}", 100).unwrap(),
            vec!["ac", "ad", "bc", "bd"]
        );
        assert!(expand("}{", 100).is_none());
        assert!(expand("{a", 100).is_none());
        assert_eq!(expand("{{a,b},c}", 100).unwrap(), vec!["a", "b", "c"]);
        assert_eq!(expand("{a,{b,c}d}", 100).unwrap(), vec!["a", "bd", "cd"]);
    }
}
