//! Compile-time validity and matching of a whole pattern, composed from the
//! brace, dewey and glob models (used where a property needs "is this a valid
//! pattern" without asking the implementation).

use super::{brace, dewey, glob};

pub fn has_glob_meta(p: &str) -> bool {
    p.contains('*') || p.contains('?') || p.contains('[') || p.contains(']')
}

/// Validity of a pattern whose glob parts stay inside the modelled subset.
pub fn valid(p: &str) -> bool {
    if p.contains('{') || p.contains('}') {
        return brace::balanced(p);
    }
    if p.contains('<') || p.contains('>') {
        return dewey::parse_pattern(p).is_some();
    }
    if has_glob_meta(p) {
        return glob::parse(p).is_some();
    }
    true
}

/// Match of a brace-free pattern; None when the pattern does not compile.
pub fn matches_flat(p: &str, name: &str, lw: dewey::LetterWeight) -> Option<bool> {
    if p.contains('<') || p.contains('>') {
        return dewey::parse_pattern(p).map(|d| d.matches(name, lw));
    }
    if has_glob_meta(p) {
        return glob::parse(p).map(|g| glob::matches(&g, name));
    }
    Some(p == name)
}

/// Full model match: union over the brace expansion.  None = does not compile.
pub fn matches(p: &str, name: &str, lw: dewey::LetterWeight) -> Option<bool> {
    if p.contains('{') || p.contains('}') {
        let ex = brace::expand(p, 100_000)?;
        return Some(
            ex.iter()
                .any(|e| matches_flat(e, name, lw).unwrap_or(false)),
        );
    }
    matches_flat(p, name, lw)
}

/// `pattern:pkgpath` with a single ':' and both halves valid.
pub fn depend_valid(s: &str) -> bool {
    let parts: Vec<&str> = s.split(':').collect();
    parts.len() == 2 && valid(parts[0]) && super::pkgpath::parse(parts[1]).is_some()
}
