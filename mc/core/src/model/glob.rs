//! Shell-glob matching for the subset property C05 names: literals, '*' (any
//! run, including '/' and a leading '.'), '?' (one character), '[set]' and
//! '[!set]' with 'x-y' ranges; case-sensitive, whole-name.

#[derive(Clone, Debug, PartialEq, Eq)]
pub enum Tok {
    Lit(char),
    Star,
    Any,
    /// (negated, items); an item is a single char (lo == hi) or a range
    Set(bool, Vec<(char, char)>),
}

/// Parse a pattern of the subset.  `None` = malformed (an unclosed '[').
/// Callers never pass `**`, '^', reversed ranges or ']' / '-' / '!' as set
/// members; those are outside the modelled subset.
pub fn parse(p: &str) -> Option<Vec<Tok>> {
    let s: Vec<char> = p.chars().collect();
    let mut out = vec![];
    let mut i = 0;
    while i < s.len() {
        match s[i] {
            '*' => {
                out.push(Tok::Star);
                i += 1;
            }
            '?' => {
                out.push(Tok::Any);
                i += 1;
            }
            '[' => {
                let mut j = i + 1;
                let mut neg = false;
                if j < s.len() && s[j] == '!' {
                    neg = true;
                    j += 1;
                }
                let mut items = vec![];
                let mut closed = false;
                while j < s.len() {
                    if s[j] == ']' {
                        closed = true;
                        j += 1;
                        break;
                    }
                    if j + 2 < s.len() && s[j + 1] == '-' && s[j + 2] != ']' {
                        items.push((s[j], s[j + 2]));
                        j += 3;
                    } else {
                        items.push((s[j], s[j]));
                        j += 1;
                    }
                }
                if !closed {
                    return None;
                }
                out.push(Tok::Set(neg, items));
                i = j;
            }
            c => {
                out.push(Tok::Lit(c));
                i += 1;
            }
        }
    }
    Some(out)
}

fn tok_matches(t: &Tok, c: char) -> bool {
    match t {
        Tok::Lit(l) => *l == c,
        Tok::Any => true,
        Tok::Set(neg, items) => {
            let inside = items.iter().any(|(lo, hi)| *lo <= c && c <= *hi);
            inside != *neg
        }
        Tok::Star => unreachable!(),
    }
}

/// Whole-name match by dynamic programming over (token index, name index).
pub fn matches(toks: &[Tok], name: &str) -> bool {
    let n: Vec<char> = name.chars().collect();
    // reach[j] = the first i tokens can match the first j chars
    let mut reach = vec![false; n.len() + 1];
    reach[0] = true;
    for t in toks {
        let mut next = vec![false; n.len() + 1];
        match t {
            Tok::Star => {
                let mut any = false;
                for j in 0..=n.len() {
                    any = any || reach[j];
                    next[j] = any;
                }
            }
            _ => {
                for j in 0..n.len() {
                    if reach[j] && tok_matches(t, n[j]) {
                        next[j + 1] = true;
                    }
                }
            }
        }
        reach = next;
    }
    reach[n.len()]
}

#[cfg(test)]
mod tests {
    use super::*;
    #[test]
    fn globs() {
        let m = |p: &str, n: &str| matches(&parse(p).unwrap(), n);
        assert!(m("foo-[0-9]*", "foo-1.0"));
        assert!(!m("foo-[2-9]*", "foo-1.0"));
        assert!(m("*", ""));
        assert!(m("a*b", "ab"));
        assert!(m("a*b", "a/.b"));
        assert!(!m("a?b", "ab"));
        assert!(m("[!a]", "b"));
        assert!(!m("[!a]", "a"));
        assert!(m("a]", "a]"));
        assert!(parse("a[b").is_none());
    }
}
