//! pkg_summary(5) entries as stated by C07/C08: 23 variables in a fixed
//! order, 11 of them required, two integer-valued, six multi-line.

use std::collections::BTreeMap;

#[derive(Clone, Copy, PartialEq, Eq, Debug)]
pub enum Kind {
    S,
    I,
    A,
}

/// (name, kind, required) in the fixed printing order.
pub const VARS: [(&str, Kind, bool); 23] = [
    ("BUILD_DATE", Kind::S, true),
    ("CATEGORIES", Kind::S, true),
    ("COMMENT", Kind::S, true),
    ("CONFLICTS", Kind::A, false),
    ("DEPENDS", Kind::A, false),
    ("DESCRIPTION", Kind::A, true),
    ("FILE_CKSUM", Kind::S, false),
    ("FILE_NAME", Kind::S, false),
    ("FILE_SIZE", Kind::I, false),
    ("HOMEPAGE", Kind::S, false),
    ("LICENSE", Kind::S, false),
    ("MACHINE_ARCH", Kind::S, true),
    ("OPSYS", Kind::S, true),
    ("OS_VERSION", Kind::S, true),
    ("PKG_OPTIONS", Kind::S, false),
    ("PKGNAME", Kind::S, true),
    ("PKGPATH", Kind::S, true),
    ("PKGTOOLS_VERSION", Kind::S, true),
    ("PREV_PKGPATH", Kind::S, false),
    ("PROVIDES", Kind::A, false),
    ("REQUIRES", Kind::A, false),
    ("SIZE_PKG", Kind::I, true),
    ("SUPERSEDES", Kind::A, false),
];

pub fn var_index(name: &str) -> Option<usize> {
    VARS.iter().position(|(n, _, _)| *n == name)
}

pub fn required() -> Vec<usize> {
    (0..VARS.len()).filter(|i| VARS[*i].2).collect()
}

#[derive(Clone, PartialEq, Eq, Debug, Hash, PartialOrd, Ord)]
pub enum Val {
    S(String),
    I(i64),
    A(Vec<String>),
}

/// variable index -> value
pub type Entry = BTreeMap<usize, Val>;

pub fn is_complete(e: &Entry) -> bool {
    required().iter().all(|i| e.contains_key(i))
}

/// One `VAR=value` line per value, variables in the fixed order.
pub fn print(e: &Entry) -> String {
    let mut out = String::new();
    for (i, v) in e {
        let name = VARS[*i].0;
        match v {
            Val::S(s) => {
                out.push_str(name);
                out.push('=');
                out.push_str(s);
                out.push('\n');
            }
            Val::I(n) => {
                out.push_str(&format!("{}={}\n", name, n));
            }
            Val::A(a) => {
                for s in a {
                    out.push_str(name);
                    out.push('=');
                    out.push_str(s);
                    out.push('\n');
                }
            }
        }
    }
    out
}

#[derive(Clone, PartialEq, Eq, Debug, PartialOrd, Ord)]
pub enum Cause {
    /// a line without '='
    ParseLine,
    /// a name that is not one of the 23
    ParseVariable,
    /// FILE_SIZE / SIZE_PKG not an integer
    ParseInt,
    /// a required variable is missing (index into VARS)
    Incomplete(usize),
}

/// optional sign, at least one ASCII digit, within i64
pub fn parse_int(s: &str) -> Option<i64> {
    let b = s.as_bytes();
    if b.is_empty() {
        return None;
    }
    let (neg, digits) = match b[0] {
        b'-' => (true, &b[1..]),
        b'+' => (false, &b[1..]),
        _ => (false, b),
    };
    if digits.is_empty() || !digits.iter().all(|c| c.is_ascii_digit()) {
        return None;
    }
    let mut v: i128 = 0;
    for c in digits {
        v = v * 10 + (*c - b'0') as i128;
        if v > (i64::MAX as i128) + 1 {
            return None;
        }
    }
    let v = if neg { -v } else { v };
    if v < i64::MIN as i128 || v > i64::MAX as i128 {
        return None;
    }
    Some(v as i64)
}

/// Lines of an entry text: split at '\n'; a final newline does not start
/// another line.
pub fn lines(text: &str) -> Vec<&str> {
    if text.is_empty() {
        return vec![];
    }
    let mut v: Vec<&str> = text.split('\n').collect();
    if text.ends_with('\n') {
        v.pop();
    }
    v
}

/// Ok(values) or the set of admissible causes (every fault present in the
/// text; which one is reported first is not part of the statement).
pub fn parse(text: &str) -> Result<Entry, Vec<Cause>> {
    let mut e = Entry::new();
    let mut causes = vec![];
    for line in lines(text) {
        let Some(eq) = line.find('=') else {
            causes.push(Cause::ParseLine);
            continue;
        };
        let (name, value) = (&line[..eq], &line[eq + 1..]);
        let Some(i) = var_index(name) else {
            causes.push(Cause::ParseVariable);
            continue;
        };
        match VARS[i].1 {
            Kind::S => {
                e.insert(i, Val::S(value.to_string()));
            }
            Kind::I => match parse_int(value) {
                Some(n) => {
                    e.insert(i, Val::I(n));
                }
                None => causes.push(Cause::ParseInt),
            },
            Kind::A => match e.entry(i).or_insert_with(|| Val::A(vec![])) {
                Val::A(a) => a.push(value.to_string()),
                _ => unreachable!(),
            },
        }
    }
    for i in required() {
        if !e.contains_key(&i) {
            causes.push(Cause::Incomplete(i));
        }
    }
    if causes.is_empty() {
        Ok(e)
    } else {
        causes.sort();
        causes.dedup();
        Err(causes)
    }
}

#[cfg(test)]
mod tests {
    use super::*;
    #[test]
    fn ints() {
        assert_eq!(parse_int("0"), Some(0));
        assert_eq!(parse_int("-1"), Some(-1));
        assert_eq!(parse_int("9223372036854775807"), Some(i64::MAX));
        assert_eq!(parse_int("9223372036854775808"), None);
        assert_eq!(parse_int("-9223372036854775808"), Some(i64::MIN));
        assert_eq!(parse_int(""), None);
        assert_eq!(parse_int("1x"), None);
        assert_eq!(parse_int("-"), None);
    }
}
