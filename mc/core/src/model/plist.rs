//! Packing-list rules of C14 (line -> entry) and C15 (views).

#[derive(Clone, PartialEq, Eq, Debug, Hash)]
pub enum Entry {
    File(Vec<u8>),
    Cwd(Vec<u8>),
    Exec(Vec<u8>),
    UnExec(Vec<u8>),
    Mode(Option<String>),
    OptPreserve,
    Owner(Option<String>),
    Group(Option<String>),
    Comment(Option<Vec<u8>>),
    Ignore,
    Name(String),
    PkgDir(Vec<u8>),
    DirRm(Vec<u8>),
    Display(Vec<u8>),
    PkgDep(String),
    BldDep(String),
    PkgCfl(String),
}

#[derive(Clone, Copy, PartialEq, Eq, Debug)]
pub enum ArgRule {
    Required,
    Optional,
    Forbidden,
}

#[derive(Clone, Copy, PartialEq, Eq, Debug)]
pub enum ArgType {
    Raw,
    Utf8,
}

/// The supported commands: spelling, argument rule, argument type.
pub const COMMANDS: [(&str, ArgRule, ArgType); 18] = [
    ("@cwd", ArgRule::Required, ArgType::Raw),
    ("@src", ArgRule::Required, ArgType::Raw),
    ("@cd", ArgRule::Required, ArgType::Raw),
    ("@exec", ArgRule::Required, ArgType::Raw),
    ("@unexec", ArgRule::Required, ArgType::Raw),
    ("@option", ArgRule::Required, ArgType::Raw),
    ("@mode", ArgRule::Optional, ArgType::Utf8),
    ("@owner", ArgRule::Optional, ArgType::Utf8),
    ("@group", ArgRule::Optional, ArgType::Utf8),
    ("@comment", ArgRule::Optional, ArgType::Raw),
    ("@ignore", ArgRule::Forbidden, ArgType::Raw),
    ("@name", ArgRule::Required, ArgType::Utf8),
    ("@pkgdep", ArgRule::Required, ArgType::Utf8),
    ("@blddep", ArgRule::Required, ArgType::Utf8),
    ("@pkgcfl", ArgRule::Required, ArgType::Utf8),
    ("@pkgdir", ArgRule::Required, ArgType::Raw),
    ("@dirrm", ArgRule::Required, ArgType::Raw),
    ("@display", ArgRule::Required, ArgType::Raw),
];

fn is_blank(b: u8) -> bool {
    b == b' ' || b == b'\t'
}

/// Does the line contain a byte that is not ASCII whitespace?
pub fn line_counts(line: &[u8]) -> bool {
    line.iter().any(|b| !b.is_ascii_whitespace() && *b != 0x0b)
}

/// Entry for one line, or Err(()) for unknown commands and argument
/// violations (which error is reported is not part of the statement).
pub fn parse_line(line: &[u8]) -> Result<Entry, ()> {
    if line.first() != Some(&b'@') {
        return Ok(Entry::File(line.to_vec()));
    }
    let (cmd, rest): (&[u8], &[u8]) = match line.iter().position(|c| *c == b' ') {
        Some(i) => (&line[..i], &line[i + 1..]),
        None => (line, &[]),
    };
    let mut k = 0;
    while k < rest.len() && is_blank(rest[k]) {
        k += 1;
    }
    let arg: Option<&[u8]> = if k < rest.len() { Some(&rest[k..]) } else { None };
    let Some((name, rule, ty)) = COMMANDS.iter().find(|(n, _, _)| n.as_bytes() == cmd) else {
        return Err(());
    };
    match (rule, arg) {
        (ArgRule::Required, None) => return Err(()),
        (ArgRule::Forbidden, Some(_)) => return Err(()),
        _ => {}
    }
    let utf8 = |a: &[u8]| -> Result<String, ()> {
        String::from_utf8(a.to_vec()).map_err(|_| ())
    };
    let _ = ty;
    Ok(match *name {
        "@cwd" | "@src" | "@cd" => Entry::Cwd(arg.unwrap().to_vec()),
        "@exec" => Entry::Exec(arg.unwrap().to_vec()),
        "@unexec" => Entry::UnExec(arg.unwrap().to_vec()),
        "@option" => {
            if arg.unwrap() == b"preserve" {
                Entry::OptPreserve
            } else {
                return Err(());
            }
        }
        "@mode" => Entry::Mode(arg.map(utf8).transpose()?),
        "@owner" => Entry::Owner(arg.map(utf8).transpose()?),
        "@group" => Entry::Group(arg.map(utf8).transpose()?),
        "@comment" => Entry::Comment(arg.map(|a| a.to_vec())),
        "@ignore" => Entry::Ignore,
        "@name" => Entry::Name(utf8(arg.unwrap())?),
        "@pkgdep" => Entry::PkgDep(utf8(arg.unwrap())?),
        "@blddep" => Entry::BldDep(utf8(arg.unwrap())?),
        "@pkgcfl" => Entry::PkgCfl(utf8(arg.unwrap())?),
        "@pkgdir" => Entry::PkgDir(arg.unwrap().to_vec()),
        "@dirrm" => Entry::DirRm(arg.unwrap().to_vec()),
        "@display" => Entry::Display(arg.unwrap().to_vec()),
        _ => unreachable!(),
    })
}

/// Whole-text parse: one entry per counted line, in order; Err if any counted
/// line is an error.
pub fn parse(text: &[u8]) -> Result<Vec<Entry>, ()> {
    let mut out = vec![];
    for line in text.split(|c| *c == b'\n') {
        if !line_counts(line) {
            continue;
        }
        out.push(parse_line(line)?);
    }
    Ok(out)
}

/// All views of C15 computed by one fold over the entry sequence.
#[derive(Clone, PartialEq, Eq, Debug, Default)]
pub struct Views {
    pub files: Vec<Vec<u8>>,
    pub files_prefixed: Vec<Vec<u8>>,
    /// indices into the entry sequence
    pub install: Vec<usize>,
    pub uninstall: Vec<usize>,
    pub depends: Vec<String>,
    pub build_depends: Vec<String>,
    pub conflicts: Vec<String>,
    pub pkgdirs: Vec<Vec<u8>>,
    pub pkgrmdirs: Vec<Vec<u8>>,
    pub pkgname: Option<String>,
    pub display: Option<Vec<u8>>,
    pub is_preserve: bool,
}

pub fn views(entries: &[Entry]) -> Views {
    let mut v = Views::default();
    let mut ignore = false;
    let mut prefix: Vec<u8> = vec![];
    for (i, e) in entries.iter().enumerate() {
        match e {
            Entry::File(f) => {
                if ignore {
                    ignore = false;
                } else {
                    v.files.push(f.clone());
                    let mut p = prefix.clone();
                    if p.last() != Some(&b'/') {
                        p.push(b'/');
                    }
                    p.extend_from_slice(f);
                    v.files_prefixed.push(p);
                    v.install.push(i);
                    v.uninstall.push(i);
                }
            }
            Entry::Ignore => ignore = true,
            Entry::Cwd(d) => {
                prefix = d.clone();
                v.install.push(i);
                v.uninstall.push(i);
            }
            Entry::Exec(_) => v.install.push(i),
            Entry::UnExec(_) => v.uninstall.push(i),
            Entry::Mode(_) | Entry::Owner(_) | Entry::Group(_) => {
                v.install.push(i);
                v.uninstall.push(i);
            }
            Entry::PkgDir(d) => {
                v.pkgdirs.push(d.clone());
                v.install.push(i);
                v.uninstall.push(i);
            }
            Entry::DirRm(d) => {
                v.pkgrmdirs.push(d.clone());
                v.uninstall.push(i);
            }
            Entry::PkgDep(s) => v.depends.push(s.clone()),
            Entry::BldDep(s) => v.build_depends.push(s.clone()),
            Entry::PkgCfl(s) => v.conflicts.push(s.clone()),
            Entry::Name(s) => {
                if v.pkgname.is_none() {
                    v.pkgname = Some(s.clone());
                }
            }
            Entry::Display(s) => {
                if v.display.is_none() {
                    v.display = Some(s.clone());
                }
            }
            Entry::OptPreserve => v.is_preserve = true,
            Entry::Comment(_) => {}
        }
    }
    v
}

#[cfg(test)]
mod tests {
    use super::*;
    #[test]
    fn lines() {
        assert_eq!(parse(b"a\n").unwrap(), vec![Entry::File(b"a".to_vec())]);
        assert_eq!(parse(b" \n\t\n").unwrap(), vec![]);
        assert_eq!(
            parse(b"@cwd  /x y \n").unwrap(),
            vec![Entry::Cwd(b"/x y ".to_vec())]
        );
        assert!(parse(b"@cwd\n").is_err());
        assert!(parse(b"@cwd \n").is_err());
        assert!(parse(b"@ignore x\n").is_err());
        assert!(parse(b"@foo\n").is_err());
        assert!(parse(b"@\n").is_err());
        assert_eq!(parse(b"@mode\n").unwrap(), vec![Entry::Mode(None)]);
        assert!(parse(b"@name \xf8\n").is_err());
        assert_eq!(parse(b" @x").unwrap(), vec![Entry::File(b" @x".to_vec())]);
    }
}
