//! PKGPATH rule of C19: component-wise, with repeated and trailing slashes and
//! non-leading '.' segments ignored, the input must be `category/package` or
//! `../../category/package` with ordinary names.

#[derive(Clone, PartialEq, Eq, Debug)]
pub struct Parsed {
    pub category: String,
    pub package: String,
}

fn ordinary(s: &str) -> bool {
    !s.is_empty() && s != "." && s != ".."
}

pub fn parse(input: &str) -> Option<Parsed> {
    if input.starts_with('/') {
        return None;
    }
    let mut comps: Vec<&str> = vec![];
    for (n, seg) in input.split('/').enumerate() {
        if seg.is_empty() {
            continue;
        }
        if seg == "." && n > 0 {
            continue;
        }
        comps.push(seg);
    }
    match comps.as_slice() {
        [c, p] if ordinary(c) && ordinary(p) => Some(Parsed {
            category: c.to_string(),
            package: p.to_string(),
        }),
        ["..", "..", c, p] if ordinary(c) && ordinary(p) => Some(Parsed {
            category: c.to_string(),
            package: p.to_string(),
        }),
        _ => None,
    }
}

#[cfg(test)]
mod tests {
    use super::*;
    #[test]
    fn paths() {
        assert!(parse("a/b").is_some());
        assert!(parse("a//b//").is_some());
        assert!(parse("a/./b").is_some());
        assert!(parse("./a/b").is_none());
        assert!(parse("../../a/b/").is_some());
        assert!(parse("../a/b").is_none());
        assert!(parse("/a/b").is_none());
        assert!(parse("a/../b").is_none());
        assert!(parse("a/b/../..").is_none());
        assert!(parse("").is_none());
        assert!(parse("a/b/.").is_some());
    }
}
