//! The "trie" explorer: every sequence of at most `max_len` symbols over an
//! alphabet of `k` symbols, shortest first within each subtree, simplest
//! symbol first.  A state is a generated sequence, a transition the extension
//! of a sequence by one symbol.

use crate::par::par_items;
use crate::run::{Run, Tally};

/// Depth-first visit of every extension of `prefix` (the prefix itself
/// included) up to `max_len`.  `prune(seq)` = true skips `seq` and its whole
/// subtree (used for domain restrictions); `visit` is called on every
/// remaining sequence.
pub fn dfs<P, V>(k: usize, max_len: usize, prefix: &mut Vec<usize>, prune: &P, visit: &mut V)
where
    P: Fn(&[usize]) -> bool,
    V: FnMut(&[usize]),
{
    if prune(prefix) {
        return;
    }
    visit(prefix);
    if prefix.len() >= max_len {
        return;
    }
    for a in 0..k {
        prefix.push(a);
        dfs(k, max_len, prefix, prune, visit);
        prefix.pop();
    }
}

/// Number of sequences of length <= n over k symbols.
pub fn count(k: usize, n: usize) -> u64 {
    let mut t = 0u64;
    let mut p = 1u64;
    for _ in 0..=n {
        t += p;
        p = p.saturating_mul(k as u64);
    }
    t
}

/// Parallel exhaustive enumeration.  The trie is cut at `split` symbols: every
/// shorter sequence is a work item of its own, every sequence of exactly
/// `split` symbols is the root of a subtree explored depth-first by one worker.
pub fn par_seqs<P, V>(run: &Run, what: &str, k: usize, max_len: usize, split: usize, prune: P, visit: V)
where
    P: Fn(&[usize]) -> bool + Sync,
    V: Fn(&[usize], &mut Tally) + Sync,
{
    let split = split.min(max_len);
    // work items: (prefix, whole_subtree)
    let mut items: Vec<(Vec<usize>, bool)> = vec![];
    {
        let mut pre = vec![];
        let mut collect = |s: &[usize]| {
            items.push((s.to_vec(), s.len() == split));
        };
        dfs(k, split, &mut pre, &prune, &mut collect);
    }
    // larger subtrees first so that the tail of the schedule is short
    par_items(run, what, &items, |_, (pre, whole), tally| {
        if *whole {
            let mut p = pre.clone();
            let mut v = |s: &[usize]| {
                tally.states += 1;
                if !s.is_empty() {
                    tally.transitions += 1;
                }
                visit(s, tally);
            };
            dfs(k, max_len, &mut p, &prune, &mut v);
        } else {
            tally.states += 1;
            if !pre.is_empty() {
                tally.transitions += 1;
            }
            visit(pre, tally);
        }
    });
}
