#!/bin/sh
# MANIFEST.setup_cmd: offline build of the harness (all drivers) against /repo.
set -eu
HERE=$(cd "$(dirname "$0")" && pwd)
export CARGO_NET_OFFLINE=true
cd "$HERE/mc"
cargo build --release --offline --bins
