#!/bin/sh
# run every check of a tier in sequence and summarise; exit non-zero if any check does not exit 0
tier=${1:-quick}
cd "$(dirname "$0")/.."
rc=0
for i in 01 02 03 04 05 06 07 08 09 10 11 12 13 14 15 16 17 18 19 20; do
    start=$(date +%s)
    out=$(./check C$i "$tier" 2>&1); c=$?
    end=$(date +%s)
    echo "C$i $tier exit=$c $((end-start))s :: $(echo "$out" | grep -E "^C$i " | head -n 1)"
    echo "$out" | grep -E "^(VIOLATION|KNOWN-FINDING|CAP-HIT|ENGINE-FAULT)" | cut -c1-300
    [ $c -ne 0 ] && rc=1
done
exit $rc
