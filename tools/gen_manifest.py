#!/usr/bin/env python3
"""Regenerate MANIFEST.json from the table below (one row per claimed property)."""
import json, os
here = os.path.dirname(os.path.dirname(os.path.abspath(__file__)))

# id -> (engine, technique, level text, level note, design ref)
CHECKS = {}
def add(pid, engine, technique, text, note, ref):
    CHECKS[pid] = dict(engine=engine, technique=technique, text=text, note=note, ref=ref)

exec(open(os.path.join(here, 'tools', 'manifest_rows.py')).read())

NOT_APPLICABLE = []
all_ids = [json.loads(l)['id'] for l in open(os.path.join(here, 'properties.jsonl'))]
rows = []
for pid in all_ids:
    if pid not in CHECKS:
        NOT_APPLICABLE.append({"property_id": pid, "reason": "check not built yet (work in progress; see DESIGN.md section 4 for the planned bounded exhaustive check)"})
        continue
    c = CHECKS[pid]
    rows.append({
        "property_id": pid,
        "quick_cmd": "./check %s quick" % pid,
        "thorough_cmd": "./check %s thorough" % pid,
        "evidence_file": "/verif/evidence/%s.json" % pid,
        "replay_cmd_template": "./check replay {path}",
        "engine": c['engine'],
        "level_claimed": {"category": "model_checking", "text": c['text'] + " The exact bounds of the run are in the evidence file (coverage.bounds); besides the alphabet-bounded part the check has a scale part (long / large / many structured inputs, magnitude ladders, character sweeps, typed-looking values, multi-byte straddles: DESIGN.md 11.6-11.8). Detection was exercised with the seeded changes under /verif/seeded that break this property (DESIGN.md 11.5).", "design_ref": c['ref'] + "; sections 11.2, 11.5-11.8"},
        "level_note": c['note'],
        "technique": c['technique'],
    })
engines = {}
for pid, c in CHECKS.items():
    engines.setdefault(c['engine'], []).append(pid)
ENGINE_TEXT = {
    "trie": "exhaustive enumeration of every sequence of <= N symbols over a finite alphabet (shortest first), real code run on each, compared with a Rust reference model",
    "graph": "explicit-state breadth-first search whose states are real objects (clones) and whose transitions are real method calls; states merged by a canonical key of the complete object state",
    "env": "deviation-bounded enumeration of environment answers (read sizes, EINTR, I/O errors) by a scripted reader, 0 then 1 then 2 deviations",
    "config": "exhaustive enumeration of finite file-system configurations materialised on a scratch directory",
    "mutate": "exhaustive deterministic mutation families over seed documents plus all short strings; child processes for abort/hang isolation",
    "laws": "verdict matrix computed with real calls over a finite carrier, universally quantified laws checked over all pairs/triples by bitset closure",
}
manifest = {
    "version": 1,
    "setup_cmd": "./setup.sh",
    "hooks": {
        "guard": "cargo feature `verif` of crate pkgsrc (off by default)",
        "enable": "mc/drivers/Cargo.toml depends on pkgsrc = { path = \"/repo\", features = [\"verif\"] }; `./check` rebuilds it from /repo's working tree with cargo build --release --offline",
        "baseline_off_cmd": "cd /repo && cargo test --workspace --no-fail-fast --offline",
        "source_commits": ["2e88c24"],
        "add_only": True,
    },
    "engines": [
        {"name": k, "path": "mc/core/src (" + k + ")", "serves_properties": sorted(v), "kind_free_text": ENGINE_TEXT.get(k, "")}
        for k, v in sorted(engines.items())
    ],
    "checks": rows,
    "notes": "All checks are bounded exhaustive explorations (model checking family) of the real code against Rust reference models; see DESIGN.md. Exit 0 = held on everything explored, 1 = VIOLATION line with replay file, 2 = machinery fault. Known findings are listed in known-findings.json.",
    "not_applicable": NOT_APPLICABLE,
}
json.dump(manifest, open(os.path.join(here, 'MANIFEST.json'), 'w'), indent=1)
print("claimed:", len(rows), "not_applicable:", len(NOT_APPLICABLE))
