#!/usr/bin/env python3
"""Copy confirmed seeded changes from a staging directory into /verif/seeded/<id>/ and
record, in meta.json, what was confirmed and which check catches them.
usage: adopt_seeds.py <staging-dir> <prefix> <round-log> [<earlier-round-log>]"""
import json, os, re, shutil, sys
here = os.path.dirname(os.path.dirname(os.path.abspath(__file__)))
staging, prefix, log = sys.argv[1], sys.argv[2], sys.argv[3]
early = sys.argv[4] if len(sys.argv) > 4 else None

def parse(path):
    res = {}
    if not path or not os.path.exists(path):
        return res
    lines = open(path, errors='replace').read().splitlines()
    for i, l in enumerate(lines):
        m = re.match(r'RESULT (C\d+) \S*/(\S+) suite_with_change=(\d+)\((\d*) passed\) demo_clean=(\d+) demo_changed=(\d+) check_exit=(\d+) violation_lines=(\d+)', l)
        if m:
            first = lines[i + 1].strip() if i + 1 < len(lines) and lines[i + 1].startswith('   ') else ''
            res[m.group(2)] = dict(prop=m.group(1), suite=int(m.group(3)), npass=m.group(4), demo_clean=int(m.group(5)),
                                   demo_changed=int(m.group(6)), check_exit=int(m.group(7)), first=first)
    return res

now, before = parse(log), parse(early)
table = []
for name in sorted(now):
    r = now[name]
    src = os.path.join(staging, name)
    ok = r['suite'] == 0 and r['demo_clean'] == 0 and r['demo_changed'] != 0
    ident = '%s%s' % (prefix, name)
    if not ok:
        print('NOT CONFIRMED', name, r)
        continue
    dst = os.path.join(here, 'seeded', ident)
    os.makedirs(dst, exist_ok=True)
    for f in ('patch.diff', 'demo.rs'):
        shutil.copy(os.path.join(src, f), os.path.join(dst, f))
    meta = json.load(open(os.path.join(src, 'meta.json')))
    meta['id'] = ident
    meta['breaks_property'] = r['prop']
    meta['confirmed_by_me'] = {
        'how': 'tools/try_seed.sh in a scratch copy of /repo (/var/tmp/verif-seed/repo), never in /repo itself',
        'repository_suite_with_change': 'passes (%s tests: cargo test --workspace --no-fail-fast --offline --lib --tests)' % r['npass'],
        'demo_without_change': 'passes',
        'demo_with_change': 'fails',
        'check_cmd': 'VERIF_REPO=<copy> ./check %s quick' % r['prop'],
        'check_exit': r['check_exit'],
        'check_first_violation': r['first'],
    }
    if name in before:
        meta['caught_by_checks_before_strengthening'] = before[name]['check_exit'] == 1
    meta['caught_by_current_checks'] = r['check_exit'] == 1
    json.dump(meta, open(os.path.join(dst, 'meta.json'), 'w'), indent=1)
    table.append((ident, r['prop'], before.get(name, {}).get('check_exit'), r['check_exit'], meta.get('summary', '')[:110]))
for t in table:
    print('| %s | %s | %s | %s | %s |' % (t[0], t[1], {None: 'n/a', 0: 'missed', 1: 'caught', 2: 'fault'}.get(t[2], t[2]), {0: 'MISSED', 1: 'caught', 2: 'fault'}.get(t[3], t[3]), t[4].replace('|', '/')))
