#!/bin/sh
# tools/try_seed.sh <seed-dir> [tier]
# Confirms a seeded property-breaking change and runs the property's check against it, in a
# scratch copy of /repo (never in /repo itself):
#   1. with the change: the repository's own test suite still passes;
#   2. with the change: the demonstration test fails;   3. without it: the demonstration passes;
#   4. `./check <property> <tier>` against the changed copy must exit 1 with a VIOLATION line.
# Prints one RESULT line.  The scratch copy is reused between calls (same path => warm cargo
# caches) and lives outside /repo and /verif; remove it with `tools/try_seed.sh --clean`.
set -u
HERE=$(cd "$(dirname "$0")/.." && pwd)
W=${VERIF_SEED_DIR:-/var/tmp/verif-seed}
if [ "${1:-}" = "--clean" ]; then rm -rf "$W"; exit 0; fi
SEED=$(cd "$1" && pwd)
TIER=${2:-quick}
PROP=$(sed -n 's/.*"property": *"\(C[0-9]*\)".*/\1/p' "$SEED/meta.json" | head -n 1)
export CARGO_NET_OFFLINE=true
export CARGO_TARGET_DIR="$W/target"
mkdir -p "$W/repo"
sync_repo() { rsync -a --delete --exclude target --exclude .git --exclude .verif-mc --exclude .verif-out /repo/ "$W/repo/" && find "$W/repo/src" "$W/repo/tests" "$W/repo/Cargo.toml" -type f -exec touch {} +; }
run_tests() { (cd "$W/repo" && cargo test --workspace --no-fail-fast --offline --lib --tests 2>&1); }

sync_repo
cp "$SEED/demo.rs" "$W/repo/tests/seeded_demo.rs"
out=$(cd "$W/repo" && cargo test --offline --test seeded_demo 2>&1); rc_demo_clean=$?
rm -f "$W/repo/tests/seeded_demo.rs"
if ! (cd "$W/repo" && patch -p1 -s < "$SEED/patch.diff"); then echo "RESULT $PROP $SEED patch-does-not-apply"; exit 3; fi
out=$(run_tests); rc_suite=$?
npass=$(echo "$out" | sed -n 's/^test result: ok\. \([0-9]*\) passed.*/\1/p' | paste -sd+ | bc)
cp "$SEED/demo.rs" "$W/repo/tests/seeded_demo.rs"
out=$(cd "$W/repo" && cargo test --offline --test seeded_demo 2>&1); rc_demo_changed=$?
rm -f "$W/repo/tests/seeded_demo.rs"
out=$(cd "$HERE" && VERIF_REPO="$W/repo" ./check "$PROP" "$TIER" 2>&1); rc_check=$?
viol=$(echo "$out" | grep -c '^VIOLATION')
first=$(echo "$out" | grep -m1 '^  violation' | cut -c1-260)
echo "RESULT $PROP $(basename "$(dirname "$SEED")")/$(basename "$SEED") suite_with_change=$rc_suite($npass passed) demo_clean=$rc_demo_clean demo_changed=$rc_demo_changed check_exit=$rc_check violation_lines=$viol"
[ -n "$first" ] && echo "   $first"
[ "$rc_check" -ne 1 ] && echo "$out" | tail -n 4 | cut -c1-300
exit 0
