#!/bin/sh
# tools/try_equiv.sh <patch> [tier]
# A behaviour-preserving refactor must keep the repository's suite green AND every check silent.
set -u
HERE=$(cd "$(dirname "$0")/.." && pwd)
W=${VERIF_SEED_DIR:-/var/tmp/verif-equiv}
PATCH=$(cd "$(dirname "$1")" && pwd)/$(basename "$1")
TIER=${2:-quick}
export CARGO_NET_OFFLINE=true
export CARGO_TARGET_DIR="$W/target"
mkdir -p "$W/repo"
rsync -a --delete --exclude target --exclude .git --exclude .verif-mc --exclude .verif-out /repo/ "$W/repo/" && find "$W/repo/src" "$W/repo/tests" "$W/repo/Cargo.toml" -type f -exec touch {} +
if ! (cd "$W/repo" && patch -p1 -s < "$PATCH"); then echo "EQUIV $(basename "$PATCH") patch-does-not-apply"; exit 3; fi
out=$(cd "$W/repo" && cargo test --workspace --no-fail-fast --offline --lib --tests 2>&1); rc_suite=$?
bad=""
# VERIF_ONLY="05 09 17" restricts the run to those checks (after a change to a few drivers)
for i in ${VERIF_ONLY:-01 02 03 04 05 06 07 08 09 10 11 12 13 14 15 16 17 18 19 20}; do
    o=$(cd "$HERE" && VERIF_REPO="$W/repo" ./check C$i "$TIER" 2>&1); rc=$?
    if [ $rc -ne 0 ]; then bad="$bad C$i(exit $rc)"; echo "$o" | grep -E '^(VIOLATION|  violation|ENGINE)' | head -n 3 | cut -c1-300; fi
    echo "$o" | grep -E '^CAP-HIT' | cut -c1-200
done
echo "EQUIV $(basename "$PATCH") suite=$rc_suite alarms:${bad:- none}"
