#!/bin/sh
# Audit of the drivers' reach (not a check): builds the harness with source-based coverage
# (nightly toolchain: -C instrument-coverage), runs every quick tier, and lists the lines of
# /repo/src that no check executed.  Everything is written under /var/tmp/verif-cov.
set -eu
HERE=$(cd "$(dirname "$0")/.." && pwd)
W=/var/tmp/verif-cov
BIN=$(ls -d "$HOME"/.rustup/toolchains/nightly-x86_64-unknown-linux-gnu/lib/rustlib/*/bin | head -n 1)
mkdir -p "$W/out"; rm -rf "$W/prof"; mkdir -p "$W/prof"
(cd "$HERE/mc" && RUSTFLAGS="-C instrument-coverage" CARGO_TARGET_DIR="$W/target" cargo +nightly build --release --offline --bins) >"$W/build.log" 2>&1
objs=""
for i in 01 02 03 04 05 06 07 08 09 10 11 12 13 14 15 16 17 18 19 20; do
    LLVM_PROFILE_FILE="$W/prof/c$i-%p.profraw" VERIF_DIR="$HERE" VERIF_OUT="$W/out" VERIF_SCRATCH="$W/scratch" VERIF_BUDGET_S=300 \
        "$W/target/release/c$i" --tier "${1:-quick}" >"$W/out/c$i.log" 2>&1 || echo "c$i exited $?"
    [ "$i" = "01" ] || objs="$objs -object $W/target/release/c$i"
done
"$BIN/llvm-profdata" merge -sparse "$W"/prof/*.profraw -o "$W/all.profdata"
"$BIN/llvm-cov" report "$W/target/release/c01" $objs -instr-profile="$W/all.profdata" --sources /repo/src 2>/dev/null | cut -c1-30,118-175
"$BIN/llvm-cov" export -format=lcov "$W/target/release/c01" $objs -instr-profile="$W/all.profdata" --sources /repo/src >"$W/all.lcov" 2>/dev/null
python3 - "$W/all.lcov" <<'PY'
import sys
cur=None; miss={}
for l in open(sys.argv[1]):
    l=l.strip()
    if l.startswith('SF:'): cur=l[3:]
    elif l.startswith('DA:'):
        n,c=l[3:].split(',')[:2]
        if int(c)==0: miss.setdefault(cur,[]).append(int(n))
for f,ls in sorted(miss.items()):
    src=open(f).read().split('\n')
    print('== never executed in',f,'(%d lines)'%len(ls))
    for n in ls: print('  %5d: %s'%(n,src[n-1].strip()[:100]))
PY
