#!/bin/sh
# Re-run every seeded change under /verif/seeded against its property's check.
# meta.json "expected_detection": absent/"quick" = the quick tier must report it (check_exit=1),
# "thorough" = only the thorough tier does, "none" = recorded as not caught (DESIGN.md 11.5).
# Every line must end in check_exit=1 except those marked KNOWN-MISS.
cd "$(dirname "$0")/.."
for d in seeded/*/; do
    exp=$(sed -n 's/.*"expected_detection": *"\([a-z]*\)".*/\1/p' "$d/meta.json" | head -n 1)
    case "$exp" in
        thorough) tools/try_seed.sh "$d" thorough | grep '^RESULT' | sed 's/$/ (thorough tier)/' ;;
        none) tools/try_seed.sh "$d" "${1:-quick}" | grep '^RESULT' | sed 's/$/ KNOWN-MISS/' ;;
        *) tools/try_seed.sh "$d" "${1:-quick}" | grep '^RESULT' ;;
    esac
done
