#!/bin/sh
# Re-run every seeded change under /verif/seeded against its property's check (quick tier).
# Every line must end in check_exit=1; anything else means a check lost its teeth.
cd "$(dirname "$0")/.."
for d in seeded/*/; do tools/try_seed.sh "$d" "${1:-quick}" | grep '^RESULT'; done
