#!/bin/sh
# Run every behaviour-preserving patch (own: mutants/equivalent, sub-agent refactors:
# mutants/refactors, mutants/refactors2, mutants/refactors3) through all 20 checks; every line must end in "alarms: none".
cd "$(dirname "$0")/.."
for p in mutants/equivalent/*.patch mutants/refactors/*.patch mutants/refactors2/*.patch mutants/refactors3/*.patch; do tools/try_equiv.sh "$p" "${1:-quick}" | grep -E '^(EQUIV|VIOLATION|  violation)'; done
