add("C01", "trie",
    "bounded exhaustive enumeration of version pairs (token- and character-level), real Pattern/best_match calls compared with a reference dewey model",
    "Every ordered pair of versions of <=3 tokens over a 30-token alphabet (every branch of the tokeniser and of the padding logic has a token), all four operators, both through compiled patterns and through best_match, plus all strings <=5 over 16 characters against 24 probes. Each case runs the real code; the oracle is the dewey rule written from the statement. A wrong weight, a dropped modifier, an asymmetric padding branch or a case slip shows up at 2-3 tokens.",
    "Bounded: nothing is executed for versions longer than 3 tokens / 5 characters; digit runs <= 18 digits; reference model mc/core/src/model/dewey.rs is trusted. Known finding letter-weight-ascii is attributed only when the implementation agrees with that exact model variant on the case.",
    "DESIGN.md section 4, C01")
add("C02", "trie",
    "bounded exhaustive enumeration of pattern strings (structured and character-level) x name pools; reference operator scanner + dewey model; Dewey-vs-Pattern differential",
    "Every pattern BASE x <=3 (operator, bound) pairs over 8 bases and 5 bounds, and every string <=8 over 'p - 1 < > =', each compiled with Pattern::new and Dewey::new and matched against name pools holding every near-miss base. Decides the compile rule (1 operator, or lower then upper bound), base equality before the last '-', conjunction of bounds and Dewey==Pattern on every explored string.",
    "Bounded by pattern length; cases whose verdict depends on a single letter's weight are skipped (C01's domain); reference scanner mc/core/src/model/dewey.rs trusted.",
    "DESIGN.md section 4, C02")
add("C03", "laws",
    "verdict matrix by real calls over a finite carrier; order laws closed over all pairs and triples by bitset rows (model-free)",
    "The full relation R_op(A,B) is computed with real Pattern calls for every ordered pair of ~1 000 (quick) / ~22 000 (thorough) versions including out-of-model strings; trichotomy, duality, reflexivity, placement independence and transitivity are then checked over every pair and every triple of the carrier, and two-bound patterns against both halves. No reference model is involved, so nothing can be a modelling artefact.",
    "Laws are established for the carrier only; the carrier has one element per tokeniser branch and per padding shape, plus 72 out-of-domain strings.",
    "DESIGN.md section 4, C03")
add("C04", "trie",
    "bounded exhaustive enumeration of brace strings; independent recursive-descent expander as oracle; probes include wrong-pairing strings",
    "Every string <=10 over '{ } , a b' and every token string <=7 over 11 pattern tokens: compile verdict vs proper nesting, and for balanced ones the match verdict against every short name, every own expansion and every string reachable by pairing a '{' with a foreign '}', compared with the union over an independently computed csh expansion.",
    "Per-expansion verdicts come from the implementation's own non-brace matcher (covered by C02/C05); expander mc/core/src/model/brace.rs trusted; bounded by pattern length.",
    "DESIGN.md section 4, C04")
add("C05", "trie",
    "bounded exhaustive enumeration of glob/plain patterns x ALL names up to length 4; DP glob matcher as oracle",
    "Every pattern of <=4 tokens over 13 tokens (literals, * ? sets, negated sets, ranges, non-ASCII, lone ']') against every name of <=4 characters, so each decision of the first-two-characters shortcut is crossed with every continuation and the dispatch is exercised with each metacharacter alone; malformed globs at every position must be Err(Glob).",
    "Glob subset of the statement only (no '**', <=3 '*'); reference matcher mc/core/src/model/glob.rs trusted; bounded by lengths.",
    "DESIGN.md section 4, C05")
add("C06", "laws",
    "exhaustive enumeration of candidate lists, all orders and all binary reduction trees with real best_match calls; model winner as oracle",
    "For 8 patterns and a 16-name pool: every ordered pair (None/one-of/matches/symmetry/model winner) and every candidate list of <=4 names in every order under every binary reduction tree; all routes must produce the model's winner, which establishes order- and association-independence on the explored lists.",
    "Pool and list length bounded; reference order = dewey model + byte-wise tie-break; known finding letter-weight-ascii attributed only on exact variant agreement.",
    "DESIGN.md section 4, C06")
add("C07", "graph",
    "explicit-state BFS over real Summary objects (states = clones, transitions = real setter/pusher calls), invariants on every transition against a model map",
    "Breadth-first search from three seed states (empty, minimal complete, full) with a 58-operation menu to depth 3-4 (5 with a reduced menu): every reached object, via every history, must show the model's values through all 23 getters, print exactly the model's text, report is_completed correctly and round-trip through the parser byte for byte. This is what establishes history independence of the printed form.",
    "Depth-bounded; states merged by the 23 getter values (complete state; size_of tripwire); reference printer/parser mc/core/src/model/summary.rs trusted.",
    "DESIGN.md section 4, C07")
add("C08", "trie",
    "bounded exhaustive enumeration of line sequences spliced into three contexts; reference parser returning the set of admissible causes",
    "Every sequence of <=3 lines (<=4 thorough) from a 53-line alphabet (all 23 variables, repeats, 12 fault shapes) before/inside/after three contexts, all 2^11 subsets of the required variables, every fault at every line of a full entry, and all reorderings of it: acceptance, parsed values and the reported cause are compared with the reference parser; is_completed() of an API-built copy must agree.",
    "Bounded by inserted-sequence length; when several faults are present any of them is admissible; reference parser mc/core/src/model/summary.rs trusted.",
    "DESIGN.md section 4, C08")
add("C09", "graph",
    "explicit-state search over real SummaryStream objects: complete transition graph (every partition of the stream is a path), plus unmerged <=3-cut partitions",
    "For each of several streams (ASCII, 2/3/4-byte characters, full entries, 16 malformed variants) the complete graph of (bytes consumed, real object) states is explored with one real write per (state, chunk length): all 2^(n-1) partitions are covered. Every write must return Ok(len) with a prefix of the expected entries, the end state must equal the single-write result and print back the stream; malformed streams must fail by the completing write with exactly the preceding entries.",
    "Streams are fixed (not all streams); state merging relies on (buffer, entries) being the complete object state (hook + size_of tripwire); the unmerged partition runs do not rely on it.",
    "DESIGN.md section 4, C09")
add("C10", "trie",
    "bounded exhaustive generation of canonical distinfo files from a grammar; byte equality of parse->write and field equality of API-build->write->parse",
    "Tens of thousands of canonical files (5 RCS-Id lines incl. non-UTF-8 user names, name pools with DIST_SUBDIR components, valid UTF-8 containing the bytes A0/85, invalid UTF-8, parentheses and classifier edge names, every ordered subset of the six algorithms, sizes up to 2^64-1, up to 2+2 files): from_bytes(f).as_bytes() == f byte for byte; the same content built through Entry::new/insert/set_rcsid writes the same bytes and parses back to the same fields; Entry::as_bytes equals the entry's lines.",
    "Grammar-bounded (<= 2 distfiles, <= 2 patches per file); patch entries carry no size; reference serialiser mc/core/src/model/distinfo.rs trusted.",
    "DESIGN.md section 4, C10")
add("C11", "trie",
    "bounded exhaustive enumeration of line sequences, a full name-byte sweep and classifier token sequences; reference line classifier/grouper",
    "Every sequence of <= 4-5 lines over a 17-line alphabet (three files incl. a patch and a sub-directory name, blanks/tabs variants, 7 noise kinds), every byte 0x01-0xFF (except ASCII whitespace and '/') in four name shapes plus all 2-byte UTF-8 sequences ending in 85/A0 in checksum and size lines between neighbours, and every name of <= 4-5 classifier tokens: recorded files, order, checksums, sizes and class must equal the reference grouper's.",
    "Names in path-normal form; 'emul-patch-*' overlap case undecided by the statement and skipped; reference model mc/core/src/model/distinfo.rs trusted.",
    "DESIGN.md section 4, C11")
add("C12", "config",
    "exhaustive enumeration of (file content, recorded value) configurations materialised on a scratch directory; verdicts recomputed from a vector-tested digest oracle",
    "File contents = all sequences of <= 2-4 lines over 6 line kinds (incl. $NetBSD lines, NUL/0xFF, unterminated last line) x {distfile, patch} x algorithms, distinfo built by API and by parsing text: correct values verify; every single-hex-digit corruption of the recorded hash at every position, truncation/extension, size +-1/0/max, every byte of a short file incremented/deleted/inserted, unrecorded algorithm/size - each must yield exactly the stated Ok / Checksum / Size / Missing* result with the right expected/actual values; find_entry against every subset of 5 recorded names x 10 lookup paths.",
    "Plain files on a local file system only; digest oracle = RustCrypto one-shot functions self-tested against published vectors.",
    "DESIGN.md section 4, C12")
add("C13", "env",
    "deviation-bounded exhaustive enumeration of read schedules (short reads, EINTR, hard errors) by a scripted reader, all compositions for tiny inputs; digest oracle anchored by published vectors",
    "Inputs of every length 0..300 plus 8 KiB boundaries and patch inputs built from all <= 4-line sequences over marker/newline shapes, x 6 algorithms x hash_file/hash_patch: the default schedule, then every schedule with <= 2 deviations {1 byte, half, all-but-one, inside the next $NetBSD marker, just after a newline, EINTR, hard error} at every read call, and for inputs <= 10 bytes every composition into reads with and without EINTR. Digest must equal the standard's, Err(Io) iff an error was delivered. Name table over all case variants and all 1-edit strings.",
    "Deviation bound 2; equality with the standard digests is established on the explored inputs and the published vectors only.",
    "DESIGN.md section 4, C13")
add("C14", "trie",
    "bounded exhaustive enumeration of byte strings and of line sequences over a command x argument-shape alphabet; per-line reference parser from the command table",
    "Every byte string <= 7-8 over {a @ SP TAB LF 0xE9} and every sequence of <= 3-4 lines over an 85-line alphabet (every command with argument absent/present, seven commands with five more argument shapes, unknown commands, file lines, blank lines), with and without a final newline: entry count, order and every entry must equal parsing each non-blank line alone with the reference table; Err exactly when a counted line is invalid.",
    "Blanks are SP/TAB (0x85/0xA0/CR/VT/FF not generated); entry vector read through the verif hook; reference parser mc/core/src/model/plist.rs trusted.",
    "DESIGN.md section 4, C14")
add("C15", "trie",
    "bounded exhaustive enumeration of entry sequences parsed by the real parser; one reference fold yields all 12 views; model-free cross-check of the four file views",
    "Every sequence of <= 4-5 entries over 24 entry kinds and of <= 7-9 entries over the 7 kinds that drive the ignore/prefix state machines: files, files_prefixed, install_cmds, uninstall_cmds (by entry identity), the five kind filters, first name/display and is_preserve must equal the fold; the four file views must list the same files in the same order.",
    "Sequence length bounded; reference fold mc/core/src/model/plist.rs trusted; entry identity through the verif hook.",
    "DESIGN.md section 4, C15")
add("C16", "trie",
    "bounded exhaustive enumeration of line sequences with a reference record splitter, plus exhaustive single-fault injection (I/O error, EINTR, invalid UTF-8) at every read call / line",
    "Every sequence of <= 4-5 lines over a 25-line alphabet (PKGNAME variants, repeated scalars, list keys, valid/invalid dependencies and locations, unknown keys, noise): Ok/Err, record count, order and every public field against the reference splitter; for every sequence of <= 3-4 lines a hard error and an EINTR at every read call of a 16-byte-buffered reader and an invalid byte in every line: the read must fail as a whole / be unaffected.",
    "No blank between key and '='; leading blocks of only ignorable lines skipped (undecided); validity of dependencies from the composed reference models.",
    "DESIGN.md section 4, C16")
add("C17", "mutate",
    "exhaustive short-string families and exhaustive deterministic mutation families over seed documents through every entry point, under catch_unwind + watchdog in a supervised child process",
    "Per entry point: all strings <= 4-7 symbols over its alphabets, every prefix / single deletion / 12-byte-palette substitution / line duplication / two-cut splice of each seed document and of 300 fixture lines, every digit run replaced by 19/20/40-digit runs, every token repeated 10^5 times, and all 512 package-database layouts over 9 directory shapes. A panic, an abort of the child or a call exceeding 2 s (10 s for the long inputs) is a violation carrying the input.",
    "No randomness; inputs whose cost is inherent to the notation (many brace groups / '*' at length 10^5) and lookup paths longer than PATH_MAX are outside the explored domain; Summary call sequences are covered by C07.",
    "DESIGN.md section 4, C17")
add("C18", "trie",
    "bounded exhaustive enumeration of names; rebuild identity, trailing-nb model and a tie to the real comparison through Pattern",
    "Every string <= 6-7 over '- n b N 0 1 9 . a e-acute' plus 18-digit revisions: pkgname() identity, split at the last '-', rebuild, revision for versions ending in nb<digits>, none without 'nb', Summary::pkgbase/pkgversion agreement, and five Pattern probes showing that the reported revision is the one the comparison uses.",
    "Shapes of 'nb' the statement leaves open are only checked for losslessness; bounded by length.",
    "DESIGN.md section 4, C18")
add("C19", "trie",
    "bounded exhaustive enumeration of segment sequences and of colon placements; reference normaliser and composed pattern validity model",
    "Every sequence of <= 6-7 segments over {.., ., a, b, empty, a.b} with and without leading '/': accept set, accessors, equality and hashes of both spellings, re-parsing of accessor output; 7 pattern halves x 8 path halves x colon counts before/between/after: acceptance, parts equal to the halves parsed directly, error variant naming the failing part.",
    "Bounded by segment count; reference normaliser mc/core/src/model/pkgpath.rs trusted.",
    "DESIGN.md section 4, C19")
add("C20", "config",
    "exhaustive enumeration of directory-tree configurations materialised on a scratch directory, plus exhaustive table checks",
    "Every database of <= 2-3 package directories over 9 name shapes with every subset of the three mandatory files, optional extra files and stray plain files: yielded set, pkgname/pkgbase/pkgversion, read_metadata for all 14 entries; the 14-entry file-name table as a bijection with every 1-edit near-miss rejected; Metadata::is_valid over 4^3 combinations.",
    "Plain files and directories only; iteration order compared as a set.",
    "DESIGN.md section 4, C20")
