add("C01", "trie",
    "bounded exhaustive enumeration of version pairs (token- and character-level), real Pattern/best_match calls compared with a reference dewey model",
    "Every ordered pair of versions of <=3 tokens over a 30-token alphabet (every branch of the tokeniser and of the padding logic has a token), all four operators, both through compiled patterns and through best_match, plus all strings <=5 over 16 characters against 24 probes. Each case runs the real code; the oracle is the dewey rule written from the statement. A wrong weight, a dropped modifier, an asymmetric padding branch or a case slip shows up at 2-3 tokens.",
    "Bounded: nothing is executed for versions longer than 3 tokens / 5 characters; digit runs <= 18 digits; reference model mc/core/src/model/dewey.rs is trusted. Known finding letter-weight-ascii is attributed only when the implementation agrees with that exact model variant on the case.",
    "DESIGN.md section 4, C01")
add("C02", "trie",
    "bounded exhaustive enumeration of pattern strings (structured and character-level) x name pools; reference operator scanner + dewey model; Dewey-vs-Pattern differential",
    "Every pattern BASE x <=3 (operator, bound) pairs over 8 bases and 5 bounds, and every string <=8 over 'p - 1 < > =', each compiled with Pattern::new and Dewey::new and matched against name pools holding every near-miss base. Decides the compile rule (1 operator, or lower then upper bound), base equality before the last '-', conjunction of bounds and Dewey==Pattern on every explored string.",
    "Bounded by pattern length; cases whose verdict depends on a single letter's weight are skipped (C01's domain); reference scanner mc/core/src/model/dewey.rs trusted.",
    "DESIGN.md section 4, C02")
add("C03", "laws",
    "verdict matrix by real calls over a finite carrier; order laws closed over all pairs and triples by bitset rows (model-free)",
    "The full relation R_op(A,B) is computed with real Pattern calls for every ordered pair of ~1 000 (quick) / ~22 000 (thorough) versions including out-of-model strings; trichotomy, duality, reflexivity, placement independence and transitivity are then checked over every pair and every triple of the carrier, and two-bound patterns against both halves. No reference model is involved, so nothing can be a modelling artefact.",
    "Laws are established for the carrier only; the carrier has one element per tokeniser branch and per padding shape, plus 72 out-of-domain strings.",
    "DESIGN.md section 4, C03")
add("C04", "trie",
    "bounded exhaustive enumeration of brace strings; independent recursive-descent expander as oracle; probes include wrong-pairing strings",
    "Every string <=10 over '{ } , a b' and every token string <=7 over 11 pattern tokens: compile verdict vs proper nesting, and for balanced ones the match verdict against every short name, every own expansion and every string reachable by pairing a '{' with a foreign '}', compared with the union over an independently computed csh expansion.",
    "Per-expansion verdicts come from the implementation's own non-brace matcher (covered by C02/C05); expander mc/core/src/model/brace.rs trusted; bounded by pattern length.",
    "DESIGN.md section 4, C04")
add("C05", "trie",
    "bounded exhaustive enumeration of glob/plain patterns x ALL names up to length 4; DP glob matcher as oracle",
    "Every pattern of <=4 tokens over 13 tokens (literals, * ? sets, negated sets, ranges, non-ASCII, lone ']') against every name of <=4 characters, so each decision of the first-two-characters shortcut is crossed with every continuation and the dispatch is exercised with each metacharacter alone; malformed globs at every position must be Err(Glob).",
    "Glob subset of the statement only (no '**', <=3 '*'); reference matcher mc/core/src/model/glob.rs trusted; bounded by lengths.",
    "DESIGN.md section 4, C05")
add("C06", "laws",
    "exhaustive enumeration of candidate lists, all orders and all binary reduction trees with real best_match calls; model winner as oracle",
    "For 8 patterns and a 16-name pool: every ordered pair (None/one-of/matches/symmetry/model winner) and every candidate list of <=4 names in every order under every binary reduction tree; all routes must produce the model's winner, which establishes order- and association-independence on the explored lists.",
    "Pool and list length bounded; reference order = dewey model + byte-wise tie-break; known finding letter-weight-ascii attributed only on exact variant agreement.",
    "DESIGN.md section 4, C06")
add("C07", "graph",
    "explicit-state BFS over real Summary objects (states = clones, transitions = real setter/pusher calls), invariants on every transition against a model map",
    "Breadth-first search from three seed states (empty, minimal complete, full) with a 58-operation menu to depth 3-4 (5 with a reduced menu): every reached object, via every history, must show the model's values through all 23 getters, print exactly the model's text, report is_completed correctly and round-trip through the parser byte for byte. This is what establishes history independence of the printed form.",
    "Depth-bounded; states merged by the 23 getter values (complete state; size_of tripwire); reference printer/parser mc/core/src/model/summary.rs trusted.",
    "DESIGN.md section 4, C07")
add("C08", "trie",
    "bounded exhaustive enumeration of line sequences spliced into three contexts; reference parser returning the set of admissible causes",
    "Every sequence of <=3 lines (<=4 thorough) from a 53-line alphabet (all 23 variables, repeats, 12 fault shapes) before/inside/after three contexts, all 2^11 subsets of the required variables, every fault at every line of a full entry, and all reorderings of it: acceptance, parsed values and the reported cause are compared with the reference parser; is_completed() of an API-built copy must agree.",
    "Bounded by inserted-sequence length; when several faults are present any of them is admissible; reference parser mc/core/src/model/summary.rs trusted.",
    "DESIGN.md section 4, C08")
add("C09", "graph",
    "explicit-state search over real SummaryStream objects: complete transition graph (every partition of the stream is a path), plus unmerged <=3-cut partitions",
    "For each of several streams (ASCII, 2/3/4-byte characters, full entries, 16 malformed variants) the complete graph of (bytes consumed, real object) states is explored with one real write per (state, chunk length): all 2^(n-1) partitions are covered. Every write must return Ok(len) with a prefix of the expected entries, the end state must equal the single-write result and print back the stream; malformed streams must fail by the completing write with exactly the preceding entries.",
    "Streams are fixed (not all streams); state merging relies on (buffer, entries) being the complete object state (hook + size_of tripwire); the unmerged partition runs do not rely on it.",
    "DESIGN.md section 4, C09")
