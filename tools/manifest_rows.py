add("C01", "trie",
    "bounded exhaustive enumeration of version pairs (token- and character-level), real Pattern/best_match calls compared with a reference dewey model",
    "Every ordered pair of versions of <=3 tokens over a 30-token alphabet (every branch of the tokeniser and of the padding logic has a token), all four operators, both through compiled patterns and through best_match, plus all strings <=5 over 16 characters against 24 probes. Each case runs the real code; the oracle is the dewey rule written from the statement. A wrong weight, a dropped modifier, an asymmetric padding branch or a case slip shows up at 2-3 tokens.",
    "Bounded: nothing is executed for versions longer than 3 tokens / 5 characters; digit runs <= 18 digits; reference model mc/core/src/model/dewey.rs is trusted. Known finding letter-weight-ascii is attributed only when the implementation agrees with that exact model variant on the case.",
    "DESIGN.md section 4, C01")
