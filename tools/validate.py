#!/usr/bin/env python3
"""Validate MANIFEST.json and every evidence file against the schemas in /root/.vp."""
import json, sys, glob, os
try:
    import jsonschema
except ImportError:
    sys.path.insert(0, glob.glob('/opt/veriftools/pyvenv/lib/python3*/site-packages')[0])
    import jsonschema
here = os.path.dirname(os.path.dirname(os.path.abspath(__file__)))
ok = True
def check(doc, schema, name):
    global ok
    try:
        jsonschema.validate(json.load(open(doc)), json.load(open(schema)))
        print("valid  ", name)
    except Exception as e:
        ok = False
        print("INVALID", name, str(e).splitlines()[0])
if os.path.exists(here + '/MANIFEST.json'):
    check(here + '/MANIFEST.json', '/root/.vp/MANIFEST.schema.json', 'MANIFEST.json')
for f in sorted(glob.glob(here + '/evidence/*.json')):
    check(f, '/root/.vp/EVIDENCE.schema.json', os.path.relpath(f, here))
sys.exit(0 if ok else 1)
